import Verif.Proofs.FlattenNF
import Verif.Proofs.FlattenNames

/-!
  The import phase (`importReferences`) in the invariants of the Flatten model, and the pipeline
  theorems for `Flatten.flatten` (the pipeline with the real import loop: multi-document bundles).
-/

namespace Proofs.FlattenImport
open J Replace OutcomeM Proofs.FlattenBase Proofs.FlattenPhases Proofs.FlattenPipeline
  Proofs.FlattenNames Proofs.FlattenNF
open Flatten hiding defNames

variable {P : J → Prop}

/-! ### document invariants -/

theorem importNewRef_inv (hP : DocInv P) (fc : Facts) (x : Ext) (o : Opts) (st : St) (refStr : String)
    (entry : RevIdx) (st' : St) (h : importNewRef fc x o st refStr entry = .ok st') (hp : P st.doc) : P st'.doc := by
  unfold importNewRef at h
  obtain ⟨sch0, _, h⟩ := bind_eq_ok.1 h
  obtain ⟨sch, _, h⟩ := bind_eq_ok.1 h
  obtain ⟨raw, _, h⟩ := bind_eq_ok.1 h
  obtain ⟨nm, _, h⟩ := bind_eq_ok.1 h
  obtain ⟨⟨newName, isOAIGen⟩, _, h⟩ := bind_eq_ok.1 h
  obtain ⟨ref, _, h⟩ := bind_eq_ok.1 h
  obtain ⟨st2, h2, h⟩ := bind_eq_ok.1 h
  simp only [pure_eq_ok] at h
  subst h
  have hp2 : P st2.doc := by
    refine foldlM_inv' (fun s : St => P s.doc) h2 ?_ hp
    intro s key s' hs hstep
    obtain ⟨d, hd, hstep⟩ := bind_eq_ok.1 hstep
    simp only [pure_eq_ok] at hstep; subst hstep
    exact hP.updateRef _ _ _ _ hd hs
  exact hP.setDefs _ _ hp2

theorem maintainNewRefs_doc (x : Ext) (st st' : St) (h : maintainNewRefs x st = .ok st') : st'.doc = st.doc := by
  unfold maintainNewRefs at h
  refine foldlM_inv (fun s : St => s.doc = st.doc) _ ?_ _ st st' rfl h
  intro s k s' hs hstep
  split at hstep
  · simp only [pure_eq_ok] at hstep; exact hstep ▸ hs
  · obtain ⟨r, _, hstep⟩ := bind_eq_ok.1 hstep
    split at hstep
    · simp only [pure_eq_ok] at hstep; subst hstep; exact hs
    · obtain ⟨pref, _, hstep⟩ := bind_eq_ok.1 hstep
      simp only [pure_eq_ok] at hstep; subst hstep; exact hs

theorem importExternalReferences_inv (hP : DocInv P) (fc : Facts) (x : Ext) (o : Opts) (s : St) (res : St × Bool)
    (h : importExternalReferences fc x o s = .ok res) (hp : P s.doc) : P res.1.doc := by
  unfold importExternalReferences at h
  obtain ⟨grouped, _, h⟩ := bind_eq_ok.1 h
  dsimp only at h
  obtain ⟨⟨s1, complete⟩, h1, h⟩ := bind_eq_ok.1 h
  obtain ⟨s2, h2, h⟩ := bind_eq_ok.1 h
  simp only [pure_eq_ok] at h; subst h
  show P s2.doc
  rw [maintainNewRefs_doc x s1 s2 h2]
  have := foldlM_inv (fun a : St × Bool => P a.1.doc) _ ?_ _ (s, true) (s1, complete) hp h1
  · exact this
  intro acc refStr acc' ha hstep
  split at hstep
  · simp only [pure_eq_ok] at hstep; exact hstep ▸ ha
  · split at hstep
    · simp only [pure_eq_ok] at hstep; exact hstep ▸ ha
    · split at hstep
      · split at hstep
        · obtain ⟨ref, _, hstep⟩ := bind_eq_ok.1 hstep
          obtain ⟨d, hd, hstep⟩ := bind_eq_ok.1 hstep
          simp only [pure_eq_ok] at hstep; subst hstep
          show P d
          refine foldlM_inv P _ ?_ _ _ d ha hd
          intro d0 key d1 h0 hs
          exact hP.updateRef _ _ _ _ hs h0
        · obtain ⟨st, hst, hstep⟩ := bind_eq_ok.1 hstep
          simp only [pure_eq_ok] at hstep; subst hstep
          exact importNewRef_inv hP _ _ _ _ _ _ _ hst ha
      · obtain ⟨st, hst, hstep⟩ := bind_eq_ok.1 hstep
        simp only [pure_eq_ok] at hstep; subst hstep
        exact importNewRef_inv hP _ _ _ _ _ _ _ hst ha

theorem importReferences_inv (hP : DocInv P) (fc : Facts) (x : Ext) (o : Opts) :
    ∀ (fuel : Nat) (s s' : St), importReferences fc x o fuel s = .ok s' → P s.doc → P s'.doc := by
  intro fuel
  induction fuel with
  | zero => intro s s' h; simp [importReferences] at h
  | succ fuel ih =>
    intro s s' h hp
    simp only [importReferences] at h
    obtain ⟨⟨s1, complete⟩, h1, h⟩ := bind_eq_ok.1 h
    have hp1 : P s1.doc := importExternalReferences_inv hP _ _ _ _ _ h1 hp
    dsimp only at h
    split at h
    · simp only [pure_eq_ok] at h; subst h; exact hp1
    · exact ih _ _ h hp1

theorem importReferences_inSync (fc : Facts) (x : Ext) (o : Opts) :
    ∀ (fuel : Nat) (s s' : St), importReferences fc x o fuel s = .ok s' → InSync fc s' := by
  intro fuel
  induction fuel with
  | zero => intro s s' h; simp [importReferences] at h
  | succ fuel ih =>
    intro s s' h
    simp only [importReferences] at h
    obtain ⟨⟨s1, complete⟩, _, h⟩ := bind_eq_ok.1 h
    dsimp only at h
    split at h
    · simp only [pure_eq_ok] at h; subst h; exact reload_inSync fc s1
    · exact ih _ _ h

/-! ### the pipeline with import -/

/-- C10 on the model, multi-document bundles included -/
theorem flatten_inSync (fc : Facts) (x : Ext) (o : Opts) (fuel : Nat) (s s' : St)
    (h : flatten fc x o fuel s = .ok s') : InSync fc s' := by
  unfold flatten at h
  obtain ⟨s1, _, h⟩ := bind_eq_ok.1 h
  dsimp only at h
  obtain ⟨s3, _, h⟩ := bind_eq_ok.1 h
  obtain ⟨s4, _, h⟩ := bind_eq_ok.1 h
  obtain ⟨s5, h5, h⟩ := bind_eq_ok.1 h
  split at h
  · exact removeUnused_inSync fc x s5 s' h
  · simp only [pure_eq_ok] at h; subst h
    exact stripPointersAndOAIGen_inSync fc x o fuel s4 _ h5

/-- C06 on the model, multi-document bundles included -/
theorem flatten_removeUnused (fc : Facts) (x : Ext) (o : Opts) (fuel : Nat) (s s' : St)
    (h : flatten fc x o fuel s = .ok s') (hr : o.removeUnused = true) :
    s'.doc.getObj "parameters" = [] ∧ s'.doc.getObj "responses" = [] ∧
    ∀ kv ∈ s'.doc.getObj "definitions",
      (RemoveUnused.usedNames fc { refName := refName x } s'.doc).contains kv.1 = true := by
  unfold flatten at h
  obtain ⟨s1, _, h⟩ := bind_eq_ok.1 h
  simp only [hr, if_true] at h
  obtain ⟨s3, h3, h⟩ := bind_eq_ok.1 h
  obtain ⟨s4, h4, h⟩ := bind_eq_ok.1 h
  obtain ⟨s5, h5, h⟩ := bind_eq_ok.1 h
  have n2 : NoShared (removeUnusedShared fc s1).doc := removeShared_noShared s1.doc
  have n3 : NoShared s3.doc := importReferences_inv noShared_docInv fc x o fuel _ _ h3 n2
  have n4 : NoShared s4.doc := by
    split at h4
    · exact nameInlinedSchemas_inv noShared_docInv _ _ _ _ _ h4 n3
    · simp only [pure_eq_ok] at h4; exact h4 ▸ n3
  have n5 : NoShared s5.doc := stripPointersAndOAIGen_inv noShared_docInv _ _ _ _ _ _ h5 n4
  unfold Flatten.removeUnused at h
  obtain ⟨d, hd, h⟩ := bind_eq_ok.1 h
  simp only [pure_eq_ok] at h; subst h
  have hok := Proofs.RemoveUnused.removeUnused_ok fc { refName := refName x } _ s5.doc d hd
  have hp : d.get? "parameters" = none := by rw [hok.2.2 "parameters" (by decide)]; exact n5.1
  have hq : d.get? "responses" = none := by rw [hok.2.2 "responses" (by decide)]; exact n5.2
  refine ⟨getObj_of_get?_none d _ hp, getObj_of_get?_none d _ hq, ?_⟩
  intro kv hkv
  show (RemoveUnused.usedNames fc { refName := refName x } d).contains kv.1 = true
  have hkv' : kv ∈ d.getObj "definitions" := hkv
  rw [← hok.1] at hkv'
  exact (List.mem_filter.1 hkv').2

/-! ### names created by the import phase -/

theorem importNewRef_fresh (fc : Facts) (hf : C03.FactsOK fc) (x : Ext) (o : Opts) (st : St) (refStr : String)
    (entry : RevIdx) (st' : St) (h : importNewRef fc x o st refStr entry = .ok st') :
    FreshExt (foldOf x) (defNames st.doc) (defNames st'.doc) := by
  unfold importNewRef at h
  obtain ⟨sch0, _, h⟩ := bind_eq_ok.1 h
  obtain ⟨sch, _, h⟩ := bind_eq_ok.1 h
  obtain ⟨raw, _, h⟩ := bind_eq_ok.1 h
  obtain ⟨nm, _, h⟩ := bind_eq_ok.1 h
  obtain ⟨⟨newName, isOAIGen⟩, hu, h⟩ := bind_eq_ok.1 h
  obtain ⟨ref, _, h⟩ := bind_eq_ok.1 h
  obtain ⟨st2, h2, h⟩ := bind_eq_ok.1 h
  simp only [pure_eq_ok] at h
  subst h
  have e2 : defNames st2.doc = defNames st.doc := by
    refine foldlM_inv' (fun s : St => defNames s.doc = defNames st.doc) h2 ?_ rfl
    intro s key s' hs hstep
    obtain ⟨d, hd, hstep⟩ := bind_eq_ok.1 hstep
    simp only [pure_eq_ok] at hstep; subst hstep
    show defNames d = defNames st.doc
    rw [updateRef_defNames _ _ _ _ hd]; exact hs
  have hfresh := uniqify_fresh fc hf x (Flatten.defNames st.doc) nm (newName, isOAIGen) hu
  have hnot : newName ∉ defNames st2.doc := by
    rw [e2]; intro hm; exact hfresh newName hm rfl
  show FreshExt (foldOf x) (defNames st.doc) (defNames (save st2.doc newName sch))
  rcases save_defNames st2.doc newName sch hnot with hs | hs
  · rw [hs, e2]; exact FreshExt.snoc newName (FreshExt.refl _) hfresh
  · rw [hs, e2]; exact FreshExt.refl _

theorem importExternalReferences_fresh (fc : Facts) (hf : C03.FactsOK fc) (x : Ext) (o : Opts) (s : St)
    (res : St × Bool) (h : importExternalReferences fc x o s = .ok res) :
    FreshExt (foldOf x) (defNames s.doc) (defNames res.1.doc) := by
  unfold importExternalReferences at h
  obtain ⟨grouped, _, h⟩ := bind_eq_ok.1 h
  dsimp only at h
  obtain ⟨⟨s1, complete⟩, h1, h⟩ := bind_eq_ok.1 h
  obtain ⟨s2, h2, h⟩ := bind_eq_ok.1 h
  simp only [pure_eq_ok] at h; subst h
  show FreshExt (foldOf x) (defNames s.doc) (defNames s2.doc)
  rw [maintainNewRefs_doc x s1 s2 h2]
  have := foldlM_inv (fun a : St × Bool => FreshExt (foldOf x) (defNames s.doc) (defNames a.1.doc)) _ ?_ _
    (s, true) (s1, complete) (FreshExt.refl _) h1
  · exact this
  intro acc refStr acc' ha hstep
  split at hstep
  · simp only [pure_eq_ok] at hstep; exact hstep ▸ ha
  · split at hstep
    · simp only [pure_eq_ok] at hstep; exact hstep ▸ ha
    · split at hstep
      · split at hstep
        · obtain ⟨ref, _, hstep⟩ := bind_eq_ok.1 hstep
          obtain ⟨d, hd, hstep⟩ := bind_eq_ok.1 hstep
          simp only [pure_eq_ok] at hstep; subst hstep
          show FreshExt (foldOf x) (defNames s.doc) (defNames d)
          have : defNames d = defNames acc.1.doc := by
            refine foldlM_inv (fun d' => defNames d' = defNames acc.1.doc) _ ?_ _ _ d rfl hd
            intro d0 key d1 h0 hs
            rw [updateRef_defNames _ _ _ _ hs]; exact h0
          rw [this]; exact ha
        · obtain ⟨st, hst, hstep⟩ := bind_eq_ok.1 hstep
          simp only [pure_eq_ok] at hstep; subst hstep
          exact ha.trans (importNewRef_fresh fc hf x o _ _ _ _ hst)
      · obtain ⟨st, hst, hstep⟩ := bind_eq_ok.1 hstep
        simp only [pure_eq_ok] at hstep; subst hstep
        exact ha.trans (importNewRef_fresh fc hf x o _ _ _ _ hst)

/-- C03, import phase: `importReferences` only appends definitions under fresh names -/
theorem importReferences_fresh (fc : Facts) (hf : C03.FactsOK fc) (x : Ext) (o : Opts) :
    ∀ (fuel : Nat) (s s' : St), importReferences fc x o fuel s = .ok s' →
      FreshExt (foldOf x) (defNames s.doc) (defNames s'.doc) := by
  intro fuel
  induction fuel with
  | zero => intro s s' h; simp [importReferences] at h
  | succ fuel ih =>
    intro s s' h
    simp only [importReferences] at h
    obtain ⟨⟨s1, complete⟩, h1, h⟩ := bind_eq_ok.1 h
    have e1 := importExternalReferences_fresh fc hf x o s _ h1
    dsimp only at h
    split at h
    · simp only [pure_eq_ok] at h; subst h; exact e1
    · exact e1.trans (ih (reload fc s1) s' h)

/-! ### the import phase on a normal form -/

theorem foldlM_ok_inv {σ α : Type} (P : σ → Prop) (f : σ → α → Outcome σ) :
    ∀ (l : List α), (∀ s a, a ∈ l → P s → ∃ s', f s a = .ok s' ∧ P s') →
      ∀ s, P s → ∃ s', l.foldlM f s = .ok s' ∧ P s' := by
  intro l
  induction l with
  | nil => intro _ s hp; exact ⟨s, rfl, hp⟩
  | cons a l ih =>
    intro hf s hp
    obtain ⟨s1, h1, hp1⟩ := hf s a List.mem_cons_self hp
    obtain ⟨s2, h2, hp2⟩ := ih (fun s b hb => hf s b (List.mem_cons_of_mem _ hb)) s1 hp1
    refine ⟨s2, ?_, hp2⟩
    simp only [List.foldlM]
    rw [h1]
    exact h2

theorem lookup_some_mem {β : Type} (k : String) (v : β) :
    ∀ (l : List (String × β)), l.lookup k = some v → (k, v) ∈ l := by
  intro l
  induction l with
  | nil => intro h; simp [List.lookup] at h
  | cons p rest ih =>
    intro h
    obtain ⟨k', v'⟩ := p
    simp only [List.lookup] at h
    split at h
    · rename_i heq
      have : k = k' := by simpa using heq
      subst this
      cases h
      exact List.mem_cons_self
    · exact List.mem_cons_of_mem _ (ih h)

theorem reverseIndex_local (o : Opts) (schemas : List (String × String))
    (h : ∀ kv ∈ schemas, hasFragmentOnly kv.2 = true) :
    ∃ g, reverseIndex o schemas = .ok g ∧ ∀ p ∈ g, hasFragmentOnly p.2.ref = true := by
  unfold reverseIndex
  refine foldlM_ok_inv (fun (acc : List (String × RevIdx)) => ∀ p ∈ acc, hasFragmentOnly p.2.ref = true) _ _ ?_ []
    (by intro p hp; cases hp)
  intro acc kv hkv hacc
  have hl := h kv hkv
  have hn : normPath o kv.2 = .ok (unescOrEmpty kv.2) := by
    unfold normPath
    simp [hl]
  rw [hn, ok_bind]
  split
  · refine ⟨_, rfl, ?_⟩
    intro p hp
    obtain ⟨q, hq, rfl⟩ := List.mem_map.1 hp
    split
    · exact hacc q hq
    · exact hacc q hq
  · refine ⟨_, rfl, ?_⟩
    intro p hp
    rcases List.mem_append.1 hp with h1 | h1
    · exact hacc p h1
    · simp at h1; subst h1; exact hl

theorem importExternalReferences_nf (fc : Facts) (x : Ext) (o : Opts) (s : St) (hc : s.ctx.newRefs = [])
    (h : nfLocal s = true) : importExternalReferences fc x o s = .ok (s, true) := by
  unfold importExternalReferences
  have hloc : ∀ kv ∈ refMap (· = "schema") s.idx, hasFragmentOnly kv.2 = true := by
    intro kv hkv
    exact List.all_eq_true.1 h kv hkv
  obtain ⟨g, hg, hgl⟩ := reverseIndex_local o _ hloc
  rw [hg, ok_bind]
  dsimp only
  refine Eq.trans (bind_of_ok _ (foldlM_idle _ (s, true) _ ?_)) ?_
  · intro refStr _
    split
    · rfl
    · rename_i entry he
      have := hgl _ (lookup_some_mem refStr entry g he)
      simp only at this
      rw [if_pos this]
      rfl
  · have hm : maintainNewRefs x s = .ok s := by
      unfold maintainNewRefs
      rw [hc]
      rfl
    dsimp only
    rw [hm, ok_bind]
    rfl

theorem importReferences_nf (fc : Facts) (x : Ext) (o : Opts) (fuel : Nat) (s : St)
    (hi : s.idx = Analyzer.analyze fc s.doc) (hc : s.ctx.newRefs = []) (h : nfLocal s = true) :
    importReferences fc x o (fuel + 1) s = .ok s := by
  simp only [importReferences]
  rw [importExternalReferences_nf fc x o s hc h, ok_bind]
  dsimp only
  simp [reload_eq_self fc s hi, Pure.pure]

/-- C08 on the model, multi-document pipeline: identity on normal forms -/
theorem flatten_nf (fc : Facts) (x : Ext) (o : Opts) (fuel : Nat) (d : J) (ops : List (String × OpRef))
    (hops : opRefsByRef x (initial fc d).idx = .ok ops)
    (h : isNF fc x o d = true) :
    flatten fc x o (fuel + 1) (initial fc d) = .ok (initial fc d) := by
  have hi : (initial fc d).idx = Analyzer.analyze fc (initial fc d).doc := rfl
  have hc : (initial fc d).ctx.newRefs = [] := rfl
  have hd : (initial fc d).doc = d := rfl
  simp only [isNF, Bool.and_eq_true, Bool.or_eq_true, Bool.not_eq_true'] at h
  obtain ⟨⟨⟨⟨hn, hl⟩, hnm⟩, hp⟩, hr⟩ := h
  unfold flatten
  rw [normalizeRef_nf fc x o _ hn]
  simp only [Bind.bind, Outcome.bind]
  have hs2 : (if o.removeUnused = true then removeUnusedShared fc (initial fc d) else initial fc d) = initial fc d := by
    split
    · rename_i hru
      rcases hr with hr | hr
      · rw [hru] at hr; cases hr
      · exact removeUnusedShared_nf fc _ hi (by rw [hd]; exact hr.1)
    · rfl
  rw [hs2, importReferences_nf fc x o fuel _ hi hc hl]
  simp only []
  have hs4 : (if (!o.minimal && !o.expand) = true then nameInlinedSchemas fc x o (initial fc d) else pure (initial fc d))
      = .ok (initial fc d) := by
    split
    · rename_i hfull
      simp only [Bool.and_eq_true, Bool.not_eq_true'] at hfull
      rcases hnm with (hm | he) | hnn
      · rw [hfull.1] at hm; cases hm
      · rw [hfull.2] at he; cases he
      · exact nameInlinedSchemas_nf fc x o _ ops hops hi hc hnn
    · rfl
  rw [hs4]
  simp only []
  have hs5 : stripPointersAndOAIGen fc x o (fuel + 1) (initial fc d) = .ok (initial fc d) := by
    unfold stripPointersAndOAIGen
    rw [namePointers_nf fc x o _ ops hops hi hc hp]
    simp only [Bind.bind, Outcome.bind]
    rw [stripOAIGen_nf fc x _ hi hc]
    simp [stripLoop]
  rw [hs5]
  simp only []
  split
  · rename_i hru
    rcases hr with hr | hr
    · rw [hru] at hr; cases hr
    · exact removeUnused_nf fc x _ hi (by rw [hd]; exact hr.2)
  · rfl

end Proofs.FlattenImport
