import Verif.Model.Params
import Verif.Spec.Ops
import Verif.Proofs.JsonLemmas
import Verif.Proofs.Ops

/-!
  Helper lemmas for C15 (effective parameters of an operation).
-/

namespace Proofs.Params
open J _root_.Params

/-! ## the loop `paramsAsMap` -/

theorem paramsAsMap_cons (x : Ext) (d : J) (cb : Bool) (p : J) (rest : List J) (acc : Acc) :
    paramsAsMap x d cb (p :: rest) acc =
      if acc.panicked then acc else
      if Doc.refStr p = "" then paramsAsMap x d cb rest { acc with res := setKv (mapKey x p) p acc.res }
      else
        match resolveParam x d (Doc.refStr p) with
        | .ok target => paramsAsMap x d cb rest { acc with res := setKv (mapKey x target) target acc.res }
        | .error e =>
          if !cb then { acc with panicked := true, calls := acc.calls ++ [(Doc.refStr p, e)] }
          else
            let answer := acc.script.head?.getD true
            let acc' := { acc with calls := acc.calls ++ [(Doc.refStr p, e)], script := acc.script.tail }
            if answer then paramsAsMap x d cb rest acc' else acc' := rfl

/-- what a parameter stands for: itself, or the parameter its `$ref` designates -/
def resolved (x : Ext) (d : J) (p : J) : Option J :=
  if Doc.refStr p = "" then some p else (resolveParam x d (Doc.refStr p)).toOption

/-- one iteration on a parameter that stands for `q` -/
theorem step_resolved (x : Ext) (d : J) (cb : Bool) (p q : J) (rest : List J) (acc : Acc)
    (hp : acc.panicked = false) (hq : resolved x d p = some q) :
    paramsAsMap x d cb (p :: rest) acc =
      paramsAsMap x d cb rest { acc with res := setKv (mapKey x q) q acc.res } := by
  rw [paramsAsMap_cons]
  simp only [hp, Bool.false_eq_true, if_false]
  unfold resolved at hq
  by_cases hr : Doc.refStr p = ""
  · simp only [hr, if_true, Option.some.injEq] at hq ⊢
    rw [hq]
  · simp only [hr, if_false] at hq ⊢
    cases hres : resolveParam x d (Doc.refStr p) with
    | ok t =>
      rw [hres] at hq
      simp only [Except.toOption, Option.some.injEq] at hq
      rw [hq]
    | error e =>
      rw [hres] at hq
      simp [Except.toOption] at hq

theorem resolved_isSome (x : Ext) (d : J) (p : J)
    (h : Doc.refStr p ≠ "" → ∃ t, resolveParam x d (Doc.refStr p) = .ok t) :
    ∃ q, resolved x d p = some q := by
  unfold resolved
  by_cases hr : Doc.refStr p = ""
  · exact ⟨p, by simp [hr]⟩
  · obtain ⟨t, ht⟩ := h hr
    exact ⟨t, by simp [hr, ht, Except.toOption]⟩

/-- override rule: last parameter with that key wins; no panic, no callback -/
theorem params_override (x : Ext) (d : J) (cb : Bool) (ps : List J) (acc : Acc)
    (hr : ∀ p ∈ ps, Doc.refStr p ≠ "" → ∃ t, resolveParam x d (Doc.refStr p) = .ok t)
    (hp : acc.panicked = false) (k : String) :
    (paramsAsMap x d cb ps acc).panicked = false ∧ (paramsAsMap x d cb ps acc).calls = acc.calls ∧
    lookup k (paramsAsMap x d cb ps acc).res =
      (match ((ps.filterMap (resolved x d)).filter fun p => mapKey x p = k).getLast? with
       | some p => some p
       | none => lookup k acc.res) := by
  induction ps generalizing acc with
  | nil => exact ⟨hp, rfl, rfl⟩
  | cons p rest ih =>
    obtain ⟨q, hq⟩ := resolved_isSome x d p (hr p (by simp))
    rw [step_resolved x d cb p q rest acc hp hq]
    have ih' := ih { acc with res := setKv (mapKey x q) q acc.res }
      (fun p' hp' => hr p' (by simp [hp'])) hp
    refine ⟨ih'.1, ih'.2.1, ?_⟩
    rw [ih'.2.2]
    simp only [List.filterMap_cons, hq]
    by_cases hk : mapKey x q = k
    · rw [List.filter_cons_of_pos (by simpa using hk), List.getLast?_cons]
      subst hk
      simp only [lookup_setKv_self]
      cases (List.filter (fun p => decide (mapKey x p = mapKey x q)) (List.filterMap (resolved x d) rest)).getLast? <;> rfl
    · rw [List.filter_cons_of_neg (by simpa using hk)]
      simp only [lookup_setKv_ne _ _ _ _ (Ne.symm hk)]

theorem mem_setKv {k : String} {v : J} {l : List (String × J)} {kv : String × J}
    (h : kv ∈ setKv k v l) : kv = (k, v) ∨ kv ∈ l := by
  induction l with
  | nil => simp [setKv] at h; exact Or.inl h
  | cons a rest ih =>
    obtain ⟨k', v'⟩ := a
    simp only [setKv] at h
    split at h
    · rcases List.mem_cons.mp h with h | h
      · exact Or.inl h
      · exact Or.inr (List.mem_cons_of_mem _ h)
    · rcases List.mem_cons.mp h with h | h
      · exact Or.inr (h ▸ List.mem_cons_self)
      · rcases ih h with h | h
        · exact Or.inl h
        · exact Or.inr (List.mem_cons_of_mem _ h)

theorem no_placeholder (x : Ext) (d : J) (cb : Bool) (ps : List J) (acc : Acc)
    (hacc : ∀ kv ∈ acc.res, Doc.refStr kv.2 = "")
    (hshared : ∀ r t, resolveParam x d r = .ok t → Doc.refStr t = "") :
    ∀ kv ∈ (paramsAsMap x d cb ps acc).res, Doc.refStr kv.2 = "" := by
  induction ps generalizing acc with
  | nil => exact hacc
  | cons p rest ih =>
    rw [paramsAsMap_cons]
    split
    · exact hacc
    split
    · rename_i hr
      apply ih
      intro kv hkv
      rcases mem_setKv hkv with rfl | h
      · exact hr
      · exact hacc kv h
    split
    · rename_i t ht
      apply ih
      intro kv hkv
      rcases mem_setKv hkv with rfl | h
      · exact hshared _ _ ht
      · exact hacc kv h
    · split
      · exact hacc
      · simp only
        split
        · exact ih _ hacc
        · exact hacc

theorem plain_panics_iff_bad_ref (x : Ext) (d : J) (ps : List J) (acc : Acc) (hp : acc.panicked = false) :
    (paramsAsMap x d false ps acc).panicked = true ↔
      ∃ p ∈ ps, Doc.refStr p ≠ "" ∧ ∀ t, resolveParam x d (Doc.refStr p) ≠ .ok t := by
  induction ps generalizing acc with
  | nil => simp [paramsAsMap, hp]
  | cons p rest ih =>
    rw [paramsAsMap_cons, if_neg (by simp [hp])]
    by_cases hr : Doc.refStr p = ""
    · rw [if_pos hr]
      refine (ih _ ?_).trans ?_
      · exact hp
      · simp [hr]
    · rw [if_neg hr]
      cases hres : resolveParam x d (Doc.refStr p) with
      | ok t =>
        simp only
        refine (ih _ ?_).trans ?_
        · exact hp
        · simp [hres]
      | error e => simp [hres, hr]

theorem safe_reports_exactly_bad_refs (x : Ext) (d : J) (ps : List J) (acc : Acc)
    (hp : acc.panicked = false) (hs : acc.script = []) :
    (paramsAsMap x d true ps acc).calls = acc.calls ++
      ps.filterMap fun p =>
        if Doc.refStr p = "" then none
        else match resolveParam x d (Doc.refStr p) with
          | .ok _ => none
          | .error e => some (Doc.refStr p, e) := by
  induction ps generalizing acc with
  | nil => simp [paramsAsMap]
  | cons p rest ih =>
    rw [paramsAsMap_cons, if_neg (by simp [hp])]
    simp only [List.filterMap_cons]
    by_cases hr : Doc.refStr p = ""
    · rw [if_pos hr, if_pos hr]
      exact ih _ hp hs
    · rw [if_neg hr, if_neg hr]
      cases hres : resolveParam x d (Doc.refStr p) with
      | ok t =>
        exact ih _ hp hs
      | error e =>
        simp only [hs, List.head?_nil, Option.getD_none, Bool.not_true, Bool.false_eq_true, if_false, if_true,
          List.tail_nil]
        refine (ih _ ?_ ?_).trans ?_
        · exact hp
        · rfl
        · simp

theorem safe_not_panicked (x : Ext) (d : J) (ps : List J) (acc : Acc) (hp : acc.panicked = false) :
    (paramsAsMap x d true ps acc).panicked = false := by
  induction ps generalizing acc with
  | nil => exact hp
  | cons p rest ih =>
    rw [paramsAsMap_cons, if_neg (by simp [hp])]
    split
    · exact ih _ hp
    split
    · exact ih _ hp
    · simp only [Bool.not_true, Bool.false_eq_true, if_false]
      split
      · exact ih _ hp
      · exact hp

/-! ## the entry points -/

theorem finish_not_panic (a : Acc) (h : a.panicked = false) : (finish a).isPanic = false := by
  simp [finish, h, Outcome.isPanic]

theorem safeParamsFor_no_panic (f : Facts) (hs : f.paramsNilSafe = true) (x : Ext) (d : J)
    (method path : String) (script : List Bool) :
    (safeParamsFor f x d method path true script).isPanic = false := by
  unfold safeParamsFor
  split
  · simp [hs, Outcome.isPanic]
  · exact finish_not_panic _ (safe_not_panicked _ _ _ _ (safe_not_panicked _ _ _ _ rfl))

theorem safeParametersFor_no_panic (f : Facts) (hs : f.paramsNilSafe = true) (x : Ext) (d : J)
    (id : String) (script : List Bool) :
    (safeParametersFor f x d id true script).isPanic = false := by
  unfold safeParametersFor
  split
  · split
    · rfl
    · exact finish_not_panic _ (safe_not_panicked _ _ _ _ (safe_not_panicked _ _ _ _ rfl))
  · simp [hs, Outcome.isPanic]

theorem safeParamsFor_missing (f : Facts) (hs : f.paramsNilSafe = true) (x : Ext) (d : J)
    (method path : String) (cb : Bool) (script : List Bool)
    (h : Ops.operationFor f d method path = none) :
    safeParamsFor f x d method path cb script = .ok ⟨[], []⟩ := by
  unfold safeParamsFor
  simp [h, hs]

theorem mem_allOps {d : J} {kv : String × J} {m : String} {op : J}
    (hkv : kv ∈ Doc.pathItems d) (hm : m ∈ Doc.methods) (hg : kv.2.get? m = some op) :
    (Str.toUpperAscii m, kv.1, op) ∈ Spec.Ops.allOps d := by
  simp only [Spec.Ops.allOps, List.mem_flatMap, List.mem_filterMap, Option.map_eq_some_iff]
  exact ⟨kv, hkv, m, hm, op, hg, rfl⟩

theorem findByID_unknown (f : Facts) (hm : f.paramsForMethods.Perm Doc.methods) (d : J) (id : String)
    (h : ((Spec.Ops.allOps d).filter fun o => Spec.Ops.idOf o = id) = []) :
    findByID f d id = none := by
  unfold findByID
  rw [List.findSome?_eq_none_iff]
  intro kv hkv
  rw [Option.map_eq_none_iff, List.findSome?_eq_none_iff]
  intro m hmm
  cases hg : kv.2.get? m with
  | none => rfl
  | some op =>
    simp only
    split
    · rename_i hid
      have hmem := mem_allOps hkv (hm.mem_iff.mp hmm) hg
      have : (Str.toUpperAscii m, kv.1, op) ∈ (Spec.Ops.allOps d).filter fun o => Spec.Ops.idOf o = id := by
        rw [List.mem_filter]; exact ⟨hmem, decide_eq_true hid⟩
      rw [h] at this; cases this
    · rfl

theorem safeParametersFor_unknown (f : Facts) (hm : f.paramsForMethods.Perm Doc.methods)
    (hs : f.paramsNilSafe = true) (x : Ext) (d : J) (id : String) (cb : Bool) (script : List Bool)
    (h : ((Spec.Ops.allOps d).filter fun o => Spec.Ops.idOf o = id) = []) :
    safeParametersFor f x d id cb script = .ok ⟨[], []⟩ := by
  unfold safeParametersFor
  rw [findByID_unknown f hm d id h]
  split <;> simp [hs]

end Proofs.Params
