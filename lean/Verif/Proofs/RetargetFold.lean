import Verif.Proofs.RetargetModel
import Verif.Proofs.OrderIndep

/-!
  A sequence of re-targetings preserves meaning: the first *phase-level* statement of C01.

  `normalizeRef` rewrites, one after the other, every `$ref` that carries the absolute path of the root document to the
  local spelling `#/definitions/<name>` — for each of them the old and the new `$ref` string designate the same
  position.  Each step is a re-targeting in the sense of `Proofs.Retarget` (with `Reaches.refl`); the hypotheses of a
  step are re-established after the previous ones (canonical keys, adequacy of the hop bound, the `$ref` still found at
  the next key), so the whole fold preserves the meaning of every position that is good for all its keys.
-/

namespace Proofs.RetargetFold
open J Replace Spec.Meaning Proofs.Retarget Proofs.RetargetModel Proofs.Move Proofs.MoveBase Proofs.UpdateComm

/-! ### canonical keys survive a write of a node with canonical keys -/

theorem keysCanonKvs_setKv (kvs : List (String × J)) (t : String) (c : J) (h : keysCanonKvs kvs = true)
    (ht : canonTokB t = true) (hc : keysCanon c = true) : keysCanonKvs (setKv t c kvs) = true := by
  induction kvs with
  | nil => simp [setKv, keysCanonKvs, ht, hc]
  | cons kv rest ih =>
    obtain ⟨k, v⟩ := kv
    simp only [keysCanonKvs, Bool.and_eq_true] at h
    simp only [setKv]
    by_cases hk : k = t
    · simp [hk, keysCanonKvs, ht, hc, h.2]
    · simp [hk, keysCanonKvs, h.1.1, h.1.2, ih h.2]

theorem mem_keys_of_lookup (kvs : List (String × J)) (t : String) (c : J) (hl : lookup t kvs = some c) :
    t ∈ kvs.map (·.1) := by
  induction kvs with
  | nil => simp [lookup] at hl
  | cons kv rest ih =>
    obtain ⟨k, v0⟩ := kv
    simp only [lookup] at hl
    by_cases hkt : k = t
    · simp [hkt]
    · simp only [hkt, if_false] at hl
      exact List.mem_cons_of_mem _ (ih hl)

theorem keysCanonList_set (xs : List J) (i : Nat) (c : J) (h : keysCanonList xs = true) (hc : keysCanon c = true) :
    keysCanonList (xs.set i c) = true := by
  induction xs generalizing i with
  | nil => simp [keysCanonList]
  | cons v rest ih =>
    simp only [keysCanonList, Bool.and_eq_true] at h
    cases i with
    | zero => simp [List.set, keysCanonList, hc, h.2]
    | succ i => simp [List.set, keysCanonList, h.1, ih i h.2]

theorem keysCanon_setAt (d : J) (toks : List String) (v d' : J) (h : keysCanon d = true) (hv : keysCanon v = true)
    (hs : setAt d toks v = some d') : keysCanon d' = true := by
  induction toks generalizing d d' with
  | nil => simp [setAt] at hs; subst hs; exact hv
  | cons t ts ih =>
    cases d with
    | obj kvs =>
      simp only [setAt] at hs
      cases hl : lookup t kvs with
      | none => simp [hl] at hs
      | some c =>
        simp only [hl, Option.map_eq_some_iff] at hs
        obtain ⟨c', hc', rfl⟩ := hs
        have hk : keysCanonKvs kvs = true := by simpa [keysCanon] using h
        have hcc := ih c c' (keysCanonKvs_lookup kvs hk t c hl) hc'
        have htc : canonTokB t = true := keysCanonKvs_keys kvs hk t (mem_keys_of_lookup kvs t c hl)
        simpa [keysCanon] using keysCanonKvs_setKv kvs t c' hk htc hcc
    | arr xs =>
      simp only [setAt] at hs
      cases hn : Spec.Pointer.natOfDigits t.toList with
      | none => simp [hn] at hs
      | some i =>
        simp only [hn] at hs
        cases hx : xs[i]? with
        | none => simp [hx] at hs
        | some c =>
          simp only [hx, Option.map_eq_some_iff] at hs
          obtain ⟨c', hc', rfl⟩ := hs
          have hk : keysCanonList xs = true := by simpa [keysCanon] using h
          have hcc := ih c c' (keysCanonList_get xs hk i c hx) hc'
          simpa [keysCanon] using keysCanonList_set xs i c' hk hcc
    | null => simp [setAt] at hs
    | bool b => simp [setAt] at hs
    | num n => simp [setAt] at hs
    | str s => simp [setAt] at hs

theorem keysCanon_set_ref (a : J) (v : String) (h : keysCanon a = true) : keysCanon (a.set "$ref" (.str v)) = true := by
  cases a with
  | obj kvs =>
    have hk : keysCanonKvs kvs = true := by simpa [keysCanon] using h
    simpa [J.set, keysCanon] using keysCanonKvs_setKv kvs "$ref" (.str v) hk (by decide) (by simp [keysCanon])
  | _ => simpa [J.set] using h

/-- canonical keys survive `UpdateRef` -/
theorem keysCanon_updR (d d' : J) (toks : List String) (v' : String) (a1 : J)
    (h : updR v' .swagger d toks = some d') (hget : Spec.Pointer.get d toks = some a1) (hk : keysCanon d = true) :
    keysCanon d' = true :=
  keysCanon_setAt d toks _ d' hk (keysCanon_set_ref a1 v' (keysCanon_get d hk toks a1 hget)) (updR_setAt d d' toks v' a1 h hget)

/-! ### the fold -/

structure Step where
  toks : List String
  v' : String

/-- the re-targetings one after the other -/
def applySteps (steps : List Step) (d : J) : Option J :=
  steps.foldlM (fun d s => updR s.v' .swagger d s.toks) d

/-- positions of auxiliary documents, and canonically spelled positions of the root -/
def GoodAll (p : Pos) : Prop := p.1 ≠ "" ∨ AllCanon p.2

theorem good_iff (toks : List String) (p : Pos) :
    Good toks p ↔ GoodAll p ∧ ¬ (p.1 = "" ∧ (toks ++ ["$ref"]) <+: p.2) := by
  unfold Good GoodAll
  constructor
  · rintro (h | ⟨h1, h2⟩)
    · exact ⟨Or.inl h, fun hh => h hh.1⟩
    · exact ⟨Or.inr h1, fun hh => h2 hh.2⟩
  · rintro ⟨h | h, h2⟩
    · exact Or.inl h
    · by_cases hp : p.1 = ""
      · exact Or.inr ⟨h, fun hh => h2 ⟨hp, hh⟩⟩
      · exact Or.inl hp

/-- what a step needs to find at its key, with both `$ref` strings designating the same position -/
def StepOK (d : J) (T : List (String × Pos)) (s : Step) : Prop :=
  ∃ a q, Spec.Pointer.get d s.toks = some a ∧ Doc.refStr a ≠ "" ∧ s.v' ≠ "" ∧
    T.lookup (Doc.refStr a) = some q ∧ T.lookup s.v' = some q ∧ AllCanon s.toks

/-- two steps act on different keys, neither of which lies inside the `$ref` member of the other -/
def Apart (s1 s2 : Step) : Prop :=
  s1.toks ≠ s2.toks ∧ ¬ (s1.toks ++ ["$ref"]) <+: s2.toks ∧ ¬ (s2.toks ++ ["$ref"]) <+: s1.toks

theorem target_indep (d d' : J) (T : List (String × Pos)) (rest : Bundle) (doc s : String) :
    (bundleWith d' T rest).target doc s = (bundleWith d T rest).target doc s := rfl

/-- below the `$ref` member of the rewritten schema a chase ends at once or not at all -/
theorem chase_in_ref (d' : J) (T : List (String × Pos)) (rest : Bundle) (toks : List String) (a1 : J) (v' : String)
    (hobj : ∃ m, a1 = .obj m)
    (hget' : Spec.Pointer.get d' toks = some (a1.set "$ref" (.str v'))) (r : List String) (h hops : Nat) (hpos : 0 < hops)
    (e : Pos) (hc : chase (bundleWith d' T rest) h ("", toks ++ "$ref" :: r) = some e) :
    chase (bundleWith d' T rest) hops ("", toks ++ "$ref" :: r) = some e := by
  obtain ⟨m, rfl⟩ := hobj
  have hnode : (bundleWith d' T rest).node ("", toks ++ "$ref" :: r) = Spec.Pointer.get (.str v') r := by
    rw [node_root, get_append, hget']
    simp [Spec.Pointer.get, Spec.Pointer.step, J.set, J.lookup_setKv_self]
  cases h with
  | zero => simp [chase] at hc
  | succ h =>
    obtain ⟨k, rfl⟩ : ∃ k, hops = k + 1 := ⟨hops - 1, by omega⟩
    rw [Setting.chase_succ] at hc ⊢
    rw [hnode] at hc ⊢
    cases r with
    | nil => simpa [Spec.Pointer.get, Doc.refStr, getStr, get?] using hc
    | cons t r2 => simp [Spec.Pointer.get, Spec.Pointer.step] at hc

theorem applySteps_preserves (T : List (String × Pos)) (rest : Bundle) (hops : Nat) (hpos : 0 < hops) :
    ∀ (steps : List Step) (d0 dn : J),
      applySteps steps d0 = some dn →
      (∀ doc s q, (bundleWith d0 T rest).target doc s = some q → GoodAll q ∧ "$ref" ∉ q.2) →
      (∀ s ∈ steps, StepOK d0 T s) → steps.Pairwise Apart → keysCanon d0 = true →
      RSetting.AdequateOn GoodAll (bundleWith d0 T rest) hops →
      ∀ n p, (∀ s ∈ steps, Good s.toks p) → GoodAll p →
        unfold (bundleWith d0 T rest) hops n p = unfold (bundleWith dn T rest) hops n p := by
  intro steps
  induction steps with
  | nil =>
    intro d0 dn h _ _ _ _ _ n p _ _
    simp [applySteps] at h; subst h; rfl
  | cons s ss ih =>
    intro d0 dn h hT hsteps hpw hk had n p hgood hgall
    simp only [applySteps, List.foldlM_cons, Option.bind_eq_bind] at h
    cases h1 : updR s.v' .swagger d0 s.toks with
    | none => simp [h1] at h
    | some d1 =>
      simp only [h1, Option.bind_some] at h
      obtain ⟨a, q, hget, hv1, hv2, ht1, ht2, hcanon⟩ := hsteps s List.mem_cons_self
      have hgoodT : ∀ doc s' q', (bundleWith d0 T rest).target doc s' = some q' → Good s.toks q' := by
        intro doc s' q' ht
        obtain ⟨hg, hnr⟩ := hT doc s' q' ht
        refine (good_iff _ _).2 ⟨hg, ?_⟩
        rintro ⟨_, hpre⟩
        exact hnr (hpre.subset (by simp))
      have hadS : RSetting.AdequateOn (Good s.toks) (bundleWith d0 T rest) hops :=
        fun h' p' e' hg' hc' => had h' p' e' ((good_iff _ _).1 hg').1 hc'
      obtain ⟨hmean, had1, hframe⟩ := updR_retarget_step d0 d1 s.toks s.v' h1 T rest a hget hv1 hv2 q q ht1 ht2
        (Reaches.refl _) hcanon hk hgoodT hops hadS
      have hobj := refStr_obj hv1
      have hget1 : Spec.Pointer.get d1 s.toks = some (a.set "$ref" (.str s.v')) :=
        get_setAt_self _ _ _ _ (updR_setAt d0 d1 s.toks s.v' a h1 hget)
      -- the hypotheses for the remaining steps hold in the rewritten document
      have hsteps1 : ∀ s2 ∈ ss, StepOK d1 T s2 := by
        intro s2 hs2
        obtain ⟨a2, q2, hget2, hv12, hv22, ht12, ht22, hcanon2⟩ := hsteps s2 (List.mem_cons_of_mem _ hs2)
        have hap : Apart s s2 := (List.pairwise_cons.1 hpw).1 s2 hs2
        have hg2 : Good s.toks ("", s2.toks) := Or.inr ⟨hcanon2, hap.2.1⟩
        have hne2 : (("", s2.toks) : Pos) ≠ ("", s.toks) := by
          intro he; exact hap.1 (congrArg Prod.snd he).symm
        rcases hframe _ hg2 hne2 with ⟨hn, _⟩ | ⟨a', c', hn, hn', hr, _⟩
        · rw [node_root, hget2] at hn; cases hn
        · rw [node_root] at hn hn'
          rw [hget2] at hn; cases hn
          exact ⟨c', q2, hn', by rw [hr]; exact hv12, hv22, by rw [hr]; exact ht12, ht22, hcanon2⟩
      have hk1 : keysCanon d1 = true := keysCanon_updR d0 d1 s.toks s.v' a h1 hget hk
      have had1' : RSetting.AdequateOn GoodAll (bundleWith d1 T rest) hops := by
        intro h' p' e' hg' hc'
        by_cases hin : p'.1 = "" ∧ (s.toks ++ ["$ref"]) <+: p'.2
        · obtain ⟨pd, pp⟩ := p'
          obtain ⟨hp1, r, hr⟩ := hin
          simp only at hp1; subst hp1
          simp only at hr
          have hpp : pp = s.toks ++ "$ref" :: r := by rw [← hr]; simp
          subst hpp
          exact chase_in_ref d1 T rest s.toks a s.v' hobj hget1 r h' hops hpos e' hc'
        · exact had1 h' p' e' ((good_iff _ _).2 ⟨hg', hin⟩) hc'
      have hrest := ih d1 dn h (fun doc s' q' ht => hT doc s' q' ht) hsteps1 (List.pairwise_cons.1 hpw).2 hk1 had1' n p
        (fun s2 hs2 => hgood s2 (List.mem_cons_of_mem _ hs2)) hgall
      exact (hmean n p (hgood s List.mem_cons_self)).trans hrest

/-- what one valid step gives for the next one: meaning preserved, the frame, canonical keys, adequacy -/
theorem step_invariants (T : List (String × Pos)) (rest : Bundle) (hops : Nat) (hpos : 0 < hops)
    (d d1 : J) (s : Step) (h1 : updR s.v' .swagger d s.toks = some d1)
    (a : J) (q0 q' : Pos) (hget : Spec.Pointer.get d s.toks = some a) (hv1 : Doc.refStr a ≠ "") (hv2 : s.v' ≠ "")
    (ht1 : T.lookup (Doc.refStr a) = some q0) (ht2 : T.lookup s.v' = some q')
    (hreach : Reaches (bundleWith d T rest) q0 q') (hcanon : AllCanon s.toks)
    (hT : ∀ doc s' q, (bundleWith d T rest).target doc s' = some q → GoodAll q ∧ "$ref" ∉ q.2)
    (hk : keysCanon d = true) (had : RSetting.AdequateOn GoodAll (bundleWith d T rest) hops) :
    (∀ n p, Good s.toks p → unfold (bundleWith d T rest) hops n p = unfold (bundleWith d1 T rest) hops n p) ∧
    keysCanon d1 = true ∧ RSetting.AdequateOn GoodAll (bundleWith d1 T rest) hops ∧
    (∀ p, Good s.toks p → p ≠ ("", s.toks) →
      ((bundleWith d T rest).node p = none ∧ (bundleWith d1 T rest).node p = none) ∨
      (∃ a' c', (bundleWith d T rest).node p = some a' ∧ (bundleWith d1 T rest).node p = some c' ∧
        Doc.refStr c' = Doc.refStr a' ∧ ShapeEq a' c')) := by
  have hgoodT : ∀ doc s' q'', (bundleWith d T rest).target doc s' = some q'' → Good s.toks q'' := by
    intro doc s' q'' ht
    obtain ⟨hg, hnr⟩ := hT doc s' q'' ht
    refine (good_iff _ _).2 ⟨hg, ?_⟩
    rintro ⟨_, hpre⟩
    exact hnr (hpre.subset (by simp))
  have hadS : RSetting.AdequateOn (Good s.toks) (bundleWith d T rest) hops :=
    fun h' p' e' hg' hc' => had h' p' e' ((good_iff _ _).1 hg').1 hc'
  obtain ⟨hmean, had1, hframe⟩ := updR_retarget_step d d1 s.toks s.v' h1 T rest a hget hv1 hv2 q0 q' ht1 ht2
    hreach hcanon hk hgoodT hops hadS
  have hobj := refStr_obj hv1
  have hget1 : Spec.Pointer.get d1 s.toks = some (a.set "$ref" (.str s.v')) :=
    get_setAt_self _ _ _ _ (updR_setAt d d1 s.toks s.v' a h1 hget)
  refine ⟨hmean, keysCanon_updR d d1 s.toks s.v' a h1 hget hk, ?_, hframe⟩
  intro h' p' e' hg' hc'
  by_cases hin : p'.1 = "" ∧ (s.toks ++ ["$ref"]) <+: p'.2
  · obtain ⟨pd, pp⟩ := p'
    obtain ⟨hp1, r, hr⟩ := hin
    simp only at hp1; subst hp1
    simp only at hr
    have hpp : pp = s.toks ++ "$ref" :: r := by rw [← hr]; simp
    subst hpp
    exact chase_in_ref d1 T rest s.toks a s.v' hobj hget1 r h' hops hpos e' hc'
  · exact had1 h' p' e' ((good_iff _ _).2 ⟨hg', hin⟩) hc'

/-! ### runs whose steps meet the hypotheses at the state in which they are taken -/

/-- a run of re-targetings, each of which finds, *in the document it is applied to*, a `$ref` whose chain leads to the
    position the new `$ref` string designates (as `DeepestRef` guarantees: `Proofs.DeepestReaches`) -/
inductive RetargetRun (T : List (String × Pos)) (rest : Bundle) : J → List Step → J → Prop
  | nil (d : J) : RetargetRun T rest d [] d
  | cons {d d1 dn : J} {s : Step} {ss : List Step} :
      updR s.v' .swagger d s.toks = some d1 →
      (∃ a q0 q', Spec.Pointer.get d s.toks = some a ∧ Doc.refStr a ≠ "" ∧ s.v' ≠ "" ∧
        T.lookup (Doc.refStr a) = some q0 ∧ T.lookup s.v' = some q' ∧
        Reaches (bundleWith d T rest) q0 q' ∧ AllCanon s.toks) →
      RetargetRun T rest d1 ss dn → RetargetRun T rest d (s :: ss) dn

theorem retargetRun_preserves (T : List (String × Pos)) (rest : Bundle) (hops : Nat) (hpos : 0 < hops)
    {d0 dn : J} {steps : List Step} (hrun : RetargetRun T rest d0 steps dn) :
    (∀ doc s q, (bundleWith d0 T rest).target doc s = some q → GoodAll q ∧ "$ref" ∉ q.2) →
    keysCanon d0 = true → RSetting.AdequateOn GoodAll (bundleWith d0 T rest) hops →
    ∀ n p, (∀ s ∈ steps, Good s.toks p) → GoodAll p →
      unfold (bundleWith d0 T rest) hops n p = unfold (bundleWith dn T rest) hops n p := by
  induction hrun with
  | nil d => intro _ _ _ n p _ _; rfl
  | @cons d d1 dn s ss h1 hstep _ ih =>
    intro hT hk had n p hgood hgall
    obtain ⟨a, q0, q', hget, hv1, hv2, ht1, ht2, hreach, hcanon⟩ := hstep
    have hgoodT : ∀ doc s' q'', (bundleWith d T rest).target doc s' = some q'' → Good s.toks q'' := by
      intro doc s' q'' ht
      obtain ⟨hg, hnr⟩ := hT doc s' q'' ht
      refine (good_iff _ _).2 ⟨hg, ?_⟩
      rintro ⟨_, hpre⟩
      exact hnr (hpre.subset (by simp))
    have hadS : RSetting.AdequateOn (Good s.toks) (bundleWith d T rest) hops :=
      fun h' p' e' hg' hc' => had h' p' e' ((good_iff _ _).1 hg').1 hc'
    obtain ⟨hmean, had1, _⟩ := updR_retarget_step d d1 s.toks s.v' h1 T rest a hget hv1 hv2 q0 q' ht1 ht2
      hreach hcanon hk hgoodT hops hadS
    have hobj := refStr_obj hv1
    have hget1 : Spec.Pointer.get d1 s.toks = some (a.set "$ref" (.str s.v')) :=
      get_setAt_self _ _ _ _ (updR_setAt d d1 s.toks s.v' a h1 hget)
    have hk1 : keysCanon d1 = true := keysCanon_updR d d1 s.toks s.v' a h1 hget hk
    have had1' : RSetting.AdequateOn GoodAll (bundleWith d1 T rest) hops := by
      intro h' p' e' hg' hc'
      by_cases hin : p'.1 = "" ∧ (s.toks ++ ["$ref"]) <+: p'.2
      · obtain ⟨pd, pp⟩ := p'
        obtain ⟨hp1, r, hr⟩ := hin
        simp only at hp1; subst hp1
        simp only at hr
        have hpp : pp = s.toks ++ "$ref" :: r := by rw [← hr]; simp
        subst hpp
        exact chase_in_ref d1 T rest s.toks a s.v' hobj hget1 r h' hops hpos e' hc'
      · exact had1 h' p' e' ((good_iff _ _).2 ⟨hg', hin⟩) hc'
    have hrest := ih (fun doc s' q'' ht => hT doc s' q'' ht) hk1 had1' n p
      (fun s2 hs2 => hgood s2 (List.mem_cons_of_mem _ hs2)) hgall
    exact (hmean n p (hgood s List.mem_cons_self)).trans hrest

/-! ### `normalizeRef` is such a fold -/

/-- the step `normalizeRef` takes for an entry of the reference map -/
def normStep (x : Flatten.Ext) (kv : String × String) : Step :=
  ⟨keyTokens kv.1, (x.mkRef (Str.join ["#/definitions", Str.base kv.2])).getD ""⟩

theorem normalize_loop_steps (x : Flatten.Ext) : ∀ (hits : List (String × String)) (d dn : J),
    hits.foldlM (fun d kv => do
      let r ← Flatten.ask "mkRef" x.mkRef (Str.join ["#/definitions", Str.base kv.2])
      Replace.updateRef d kv.1 r) d = .ok dn →
    applySteps (hits.map (normStep x)) d = some dn := by
  intro hits
  induction hits with
  | nil => intro d dn h; simp [List.foldlM] at h; simp [applySteps, h]
  | cons kv rest ih =>
    intro d dn h
    simp only [List.foldlM_cons] at h
    obtain ⟨d1, h1, h2⟩ := OutcomeM.bind_eq_ok.1 h
    obtain ⟨r, hr, hu⟩ := OutcomeM.bind_eq_ok.1 h1
    have hrv : x.mkRef (Str.join ["#/definitions", Str.base kv.2]) = some r := by
      unfold Flatten.ask at hr
      split at hr
      · rename_i v hv; cases hr; exact hv
      · cases hr
    have hstep : updR (normStep x kv).v' .swagger d (normStep x kv).toks = some d1 := by
      simp only [normStep, hrv, Option.getD_some]
      exact (updateRef_ok_iff d kv.1 r d1).1 hu
    simp only [applySteps, List.map_cons, List.foldlM_cons, Option.bind_eq_bind, hstep, Option.bind_some]
    exact ih d1 dn h2

/-- **`normalizeRef` preserves the meaning of the API** (phase level, for every document): when the loop of
    `normalizeRef` over the entries of the reference map that carry the absolute path of the root returns `dn`, every
    position that is good for all the rewritten keys denotes in `dn` the tree it denoted before.  Hypotheses: for each
    such entry the key holds a `$ref` whose string and whose local spelling designate the same position (`StepOK`:
    that is what "the absolute path of the root document" means), the keys are apart (`Apart`), object keys are
    canonical tokens, no `$ref` of the bundle designates a position through a `$ref` member, and the hop bound is
    adequate on the good positions. -/
theorem normalizeFold_preserves_meaning (x : Flatten.Ext) (o : Flatten.Opts) (refs : List (String × String)) (d dn : J)
    (h : Proofs.OrderIndep.normalizeFold x o refs d = .ok dn)
    (T : List (String × Pos)) (rest : Bundle) (hops : Nat) (hpos : 0 < hops)
    (hT : ∀ doc s q, (bundleWith d T rest).target doc s = some q → GoodAll q ∧ "$ref" ∉ q.2)
    (hsteps : ∀ kv ∈ refs.filter (fun kv => Str.hasPrefix (o.basePath ++ "#/definitions") kv.2), StepOK d T (normStep x kv))
    (hpw : ((refs.filter fun kv => Str.hasPrefix (o.basePath ++ "#/definitions") kv.2).map (normStep x)).Pairwise Apart)
    (hk : keysCanon d = true) (had : RSetting.AdequateOn GoodAll (bundleWith d T rest) hops) :
    ∀ n p, (∀ kv ∈ refs.filter (fun kv => Str.hasPrefix (o.basePath ++ "#/definitions") kv.2), Good (keyTokens kv.1) p) →
      GoodAll p → unfold (bundleWith d T rest) hops n p = unfold (bundleWith dn T rest) hops n p := by
  intro n p hg hga
  unfold Proofs.OrderIndep.normalizeFold at h
  have hs := normalize_loop_steps x _ d dn h
  refine applySteps_preserves T rest hops hpos _ d dn hs hT ?_ hpw hk had n p ?_ hga
  · intro s hs'
    obtain ⟨kv, hkv, rfl⟩ := List.mem_map.1 hs'
    exact hsteps kv hkv
  · intro s hs'
    obtain ⟨kv, hkv, rfl⟩ := List.mem_map.1 hs'
    exact hg kv hkv

end Proofs.RetargetFold
