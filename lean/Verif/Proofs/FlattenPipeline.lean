import Verif.Proofs.FlattenPhases
import Verif.Proofs.RemoveUnused

/-!
  Pipeline-level facts about the Flatten model (`Flatten.flattenLocal`): the index the caller's
  `Spec` holds at the end is the analysis of the final document (C10), and with RemoveUnused the
  shared sections are absent and every remaining definition is referred to (C06).
-/

namespace Proofs.FlattenPipeline
open J Replace Flatten OutcomeM Proofs.FlattenBase Proofs.FlattenPhases

/-! ### the index is the analysis of the document -/

def InSync (fc : Facts) (s : St) : Prop := s.idx = Analyzer.analyze fc s.doc

theorem reload_inSync (fc : Facts) (s : St) : InSync fc (reload fc s) := rfl

theorem syncNewRefs_inSync (fc : Facts) (s : St) (h : InSync fc s) : InSync fc (syncNewRefs s) := h

theorem stripInOrder_inSync (fc : Facts) (x : Ext) (s1 : St) (order : List String) (res : St × Bool)
    (h : stripInOrder fc x s1 order = .ok res) : InSync fc res.1 := by
  unfold stripInOrder at h
  obtain ⟨⟨s2, rep⟩, _, h⟩ := bind_eq_ok.1 h
  simp only [pure_eq_ok] at h; subst h
  exact reload_inSync fc s2

theorem stripOAIGen_inSync (fc : Facts) (x : Ext) (s : St) (res : St × Bool)
    (h : stripOAIGen fc x s = .ok res) : InSync fc res.1 :=
  stripInOrder_inSync fc x _ _ res h

theorem stripLoop_inSync (fc : Facts) (x : Ext) (o : Opts) :
    ∀ (fuel : Nat) (s : St) (again : Bool) (s' : St),
      stripLoop fc x o fuel s again = .ok s' → InSync fc s → InSync fc s' := by
  intro fuel
  induction fuel with
  | zero => intro s again s' h; simp [stripLoop] at h
  | succ fuel ih =>
    intro s again s' h hs
    simp only [stripLoop] at h
    split at h
    · cases h; exact hs
    · obtain ⟨s1, _, h⟩ := bind_eq_ok.1 h
      obtain ⟨s2, _, h⟩ := bind_eq_ok.1 h
      obtain ⟨⟨s3, again'⟩, h3, h⟩ := bind_eq_ok.1 h
      exact ih s3 again' s' h (stripOAIGen_inSync fc x s2 _ h3)

theorem stripPointersAndOAIGen_inSync (fc : Facts) (x : Ext) (o : Opts) (fuel : Nat) (s s' : St)
    (h : stripPointersAndOAIGen fc x o fuel s = .ok s') : InSync fc s' := by
  unfold stripPointersAndOAIGen at h
  obtain ⟨s1, _, h⟩ := bind_eq_ok.1 h
  obtain ⟨⟨s2, again⟩, h2, h⟩ := bind_eq_ok.1 h
  exact stripLoop_inSync fc x o fuel s2 again s' h (stripOAIGen_inSync fc x s1 _ h2)

theorem removeUnused_inSync (fc : Facts) (x : Ext) (s s' : St) (h : Flatten.removeUnused fc x s = .ok s') :
    InSync fc s' := by
  unfold Flatten.removeUnused at h
  obtain ⟨d, _, h⟩ := bind_eq_ok.1 h
  simp only [pure_eq_ok] at h; subst h
  exact reload_inSync fc _

/-- C10 on the model: whatever the state the pipeline starts from, when it returns normally the index
    is the analysis of the document it returns -/
theorem flattenLocal_inSync (fc : Facts) (x : Ext) (o : Opts) (fuel : Nat) (s s' : St)
    (h : flattenLocal fc x o fuel s = .ok s') : InSync fc s' := by
  unfold flattenLocal at h
  obtain ⟨s1, _, h⟩ := bind_eq_ok.1 h
  dsimp only at h
  obtain ⟨s3, _, h⟩ := bind_eq_ok.1 h
  obtain ⟨s4, _, h⟩ := bind_eq_ok.1 h
  obtain ⟨s5, h5, h⟩ := bind_eq_ok.1 h
  split at h
  · exact removeUnused_inSync fc x s5 s' h
  · simp only [pure_eq_ok] at h; subst h
    exact stripPointersAndOAIGen_inSync fc x o fuel s4 _ h5

/-! ### RemoveUnused at the level of the pipeline -/

theorem noShared_docInv : DocInv NoShared where
  updateRef := updateRef_noShared
  rewrite := rewriteSchemaToRef_noShared
  withSchema := updateRefWithSchema_noShared
  setDefs := fun d v h => set_definitions_noShared d v h

theorem removeShared_noShared (d : J) : NoShared (RemoveUnused.removeShared d) :=
  ⟨Proofs.RemoveUnused.get?_removeShared_parameters d, Proofs.RemoveUnused.get?_removeShared_responses d⟩

theorem getObj_of_get?_none (d : J) (k : String) (h : d.get? k = none) : d.getObj k = [] := by
  simp [getObj, h]

/-- C06 on the model: with RemoveUnused, when the pipeline returns normally the shared parameters
    and responses sections are absent and every remaining definition is designated by some schema
    `$ref` the analyzer sees in the returned document -/
theorem flattenLocal_removeUnused (fc : Facts) (x : Ext) (o : Opts) (fuel : Nat) (s s' : St)
    (h : flattenLocal fc x o fuel s = .ok s') (hr : o.removeUnused = true) :
    s'.doc.getObj "parameters" = [] ∧ s'.doc.getObj "responses" = [] ∧
    ∀ kv ∈ s'.doc.getObj "definitions",
      (RemoveUnused.usedNames fc { refName := refName x } s'.doc).contains kv.1 = true := by
  unfold flattenLocal at h
  obtain ⟨s1, _, h⟩ := bind_eq_ok.1 h
  simp only [hr, if_true] at h
  obtain ⟨s3, h3, h⟩ := bind_eq_ok.1 h
  obtain ⟨s4, h4, h⟩ := bind_eq_ok.1 h
  obtain ⟨s5, h5, h⟩ := bind_eq_ok.1 h
  -- the shared sections are gone after phase 3 and nothing brings them back
  have n2 : NoShared (removeUnusedShared fc s1).doc := removeShared_noShared s1.doc
  have n3 : NoShared s3.doc := by
    unfold importReferencesLocal at h3
    split at h3
    · cases h3; exact n2
    · cases h3
  have n4 : NoShared s4.doc := by
    split at h4
    · exact nameInlinedSchemas_inv noShared_docInv _ _ _ _ _ h4 n3
    · simp only [pure_eq_ok] at h4; exact h4 ▸ n3
  have n5 : NoShared s5.doc := stripPointersAndOAIGen_inv noShared_docInv _ _ _ _ _ _ h5 n4
  -- the last phase
  unfold Flatten.removeUnused at h
  obtain ⟨d, hd, h⟩ := bind_eq_ok.1 h
  simp only [pure_eq_ok] at h; subst h
  have hok := Proofs.RemoveUnused.removeUnused_ok fc { refName := refName x } _ s5.doc d hd
  have hp : d.get? "parameters" = none := by rw [hok.2.2 "parameters" (by decide)]; exact n5.1
  have hq : d.get? "responses" = none := by rw [hok.2.2 "responses" (by decide)]; exact n5.2
  refine ⟨getObj_of_get?_none d _ hp, getObj_of_get?_none d _ hq, ?_⟩
  intro kv hkv
  show (RemoveUnused.usedNames fc { refName := refName x } d).contains kv.1 = true
  have hkv' : kv ∈ d.getObj "definitions" := hkv
  rw [← hok.1] at hkv'
  exact (List.mem_filter.1 hkv').2

end Proofs.FlattenPipeline
