import Verif.Proofs.MixinParts

/-!
  C17: what one iteration of the loop over mixins (`Mixin.step`) does to every part of the
  accumulated document, and the invariants carried along the loop (`Mixin.steps`).
-/

namespace Proofs.Mixin
open J Spec.Mixin

/-! ## mergeList -/

theorem mergeList_eq (k : String) (same : J → J → Bool) (p m : J) :
    Mixin.mergeList k same p m =
      (if (unionNew same (p.getArr k) (m.getArr k)).isEmpty then p
       else p.set k (.arr (unionNew same (p.getArr k) (m.getArr k))),
       (Mixin.appendNew same (p.getArr k) (m.getArr k)).2) := by
  unfold Mixin.mergeList
  rw [← appendNew_fst]

theorem mergeList_isObj (k : String) (same : J → J → Bool) (p m : J) :
    (Mixin.mergeList k same p m).1.isObj = p.isObj := by
  rw [mergeList_eq]; simp only; split
  · rfl
  · exact isObj_set _ _ _

theorem mergeList_get?_ne (k k₂ : String) (same : J → J → Bool) (p m : J) (h : k₂ ≠ k) :
    (Mixin.mergeList k same p m).1.get? k₂ = p.get? k₂ := by
  rw [mergeList_eq]; simp only; split
  · rfl
  · exact get?_set_ne _ _ _ _ h

theorem mergeList_getArr (k : String) (same : J → J → Bool) (p m : J) (hp : p.isObj = true) :
    (Mixin.mergeList k same p m).1.getArr k = unionNew same (p.getArr k) (m.getArr k) := by
  rw [mergeList_eq]; simp only; split
  · rename_i h
    have h1 := unionNew_length_ge same (p.getArr k) (m.getArr k)
    have h2 : unionNew same (p.getArr k) (m.getArr k) = [] := by simpa using h
    rw [h2] at h1 ⊢
    simpa using h1
  · exact getArr_set_self _ _ _ hp

theorem mergeList_dups (k : String) (same : J → J → Bool) (p m : J) :
    (unionNew same (p.getArr k) (m.getArr k)).length + (Mixin.mergeList k same p m).2.length =
      (p.getArr k).length + (m.getArr k).length := by
  rw [mergeList_eq]; exact appendNew_length _ _ _

/-! ## mergeKeyed -/

theorem mergeKeyed_eq (sect cat : String) (p m : J) :
    Mixin.mergeKeyed sect cat p m =
      (if (fw allKeys (p.getObj sect) (m.getObj sect)).1.isEmpty then p
       else p.set sect (.obj (fw allKeys (p.getObj sect) (m.getObj sect)).1),
       (fw allKeys (p.getObj sect) (m.getObj sect)).2.map fun k => (cat, k)) := by
  unfold Mixin.mergeKeyed
  rw [mergeKeyedKvs_eq]

theorem mergeKeyed_isObj (sect cat : String) (p m : J) :
    (Mixin.mergeKeyed sect cat p m).1.isObj = p.isObj := by
  rw [mergeKeyed_eq]; simp only; split
  · rfl
  · exact isObj_set _ _ _

theorem mergeKeyed_get?_ne (sect cat k₂ : String) (p m : J) (h : k₂ ≠ sect) :
    (Mixin.mergeKeyed sect cat p m).1.get? k₂ = p.get? k₂ := by
  rw [mergeKeyed_eq]; simp only; split
  · rfl
  · exact get?_set_ne _ _ _ _ h

theorem mergeKeyed_getObj (sect cat : String) (p m : J) (hp : p.isObj = true) :
    (Mixin.mergeKeyed sect cat p m).1.getObj sect = (fw allKeys (p.getObj sect) (m.getObj sect)).1 := by
  rw [mergeKeyed_eq]; simp only; split
  · rename_i h
    have h1 := fw_isEmpty _ _ _ h
    have h2 : (fw allKeys (p.getObj sect) (m.getObj sect)).1 = [] := by simpa using h
    rw [h2, h1]
  · exact getObj_set_self _ _ _ hp

theorem mergeKeyed_warns (sect cat : String) (p m : J) :
    (Mixin.mergeKeyed sect cat p m).2.length = (fw allKeys (p.getObj sect) (m.getObj sect)).2.length := by
  rw [mergeKeyed_eq]; simp

/-! ## renameOps, mergePaths: keys, reports, and the path items up to operation ids -/

theorem map_setKv_of_lookup (g : String × J → String × J) (k : String) (v v₀ : J) (kvs : List (String × J))
    (h : lookup k kvs = some v₀) (hg : g (k, v) = g (k, v₀)) :
    (setKv k v kvs).map g = kvs.map g := by
  induction kvs with
  | nil => simp at h
  | cons kv rest ih =>
    obtain ⟨k', v'⟩ := kv
    simp only [lookup] at h
    simp only [setKv]
    split
    · rename_i hk
      subst hk
      simp only [if_true, Option.some.injEq] at h
      subst h
      simp [hg]
    · rename_i hk
      simp only [hk, if_false] at h
      simp [ih h]

theorem stripOpIds_set (pi op : J) (m : String) (v : J) (hm : Doc.isMethodKey m = true)
    (h : pi.get? m = some op) : stripOpIds (pi.set m (op.set "operationId" v)) = stripOpIds pi := by
  cases pi with
  | obj kvs =>
    simp only [get?] at h
    show mapObj _ (J.obj (setKv m _ kvs)) = mapObj _ (J.obj kvs)
    simp only [mapObj]
    congr 1
    apply map_setKv_of_lookup _ _ _ _ _ h
    simp only [sel, hm, if_true, erase_set_self]
  | _ => rfl

theorem renameOps_fold_strip (f : Facts) (idx : Nat) (ks : List String)
    (hks : ∀ m ∈ ks, Doc.isMethodKey m = true) (acc : J × List String) :
    stripOpIds (ks.foldl (fun (acc : J × List String) m =>
      match acc.1.get? m with
      | some op =>
        let id := op.getStr "operationId"
        if f.mixinSkipsEmptyIDs && id = "" then acc
        else
          let id' := if acc.2.contains id then id ++ "Mixin" ++ toString idx else id
          (acc.1.set m (op.set "operationId" (.str id')), acc.2 ++ [id'])
      | none => acc) acc).1 = stripOpIds acc.1 := by
  induction ks generalizing acc with
  | nil => rfl
  | cons m ks ih =>
    simp only [List.foldl_cons]
    rw [ih (fun m' hm' => hks m' (List.mem_cons_of_mem _ hm'))]
    split
    · rename_i op hop
      split
      · rfl
      · exact stripOpIds_set _ _ _ _ (hks m (by simp)) hop
    · rfl

theorem renameOps_strip (f : Facts) (hm : ∀ m ∈ f.mixinMethods, Doc.isMethodKey m = true)
    (idx : Nat) (ids : List String) (pi : J) :
    stripOpIds (Mixin.renameOps f idx ids pi).1 = stripOpIds pi := by
  unfold Mixin.renameOps
  apply renameOps_fold_strip
  intro m hmem
  exact hm m (List.mem_filter.1 hmem).1

/-- the loop body of `mergePaths` -/
def pathsBody (f : Facts) (idx : Nat) (acc : Mixin.PathsAcc) (kv : String × J) : Mixin.PathsAcc :=
  if !Doc.isPathKey kv.1 then acc
  else if (lookup kv.1 acc.paths).isSome then { acc with warns := acc.warns ++ [("paths", kv.1)] }
  else
    { acc with paths := acc.paths ++ [(kv.1, (Mixin.renameOps f idx acc.ids kv.2).1)],
               ids := (Mixin.renameOps f idx acc.ids kv.2).2 }

theorem mergePaths_eq (f : Facts) (idx : Nat) (pp : List (String × J)) (ids : List String)
    (mp : List (String × J)) :
    Mixin.mergePaths f idx pp ids mp = mp.foldl (pathsBody f idx) ⟨pp, ids, []⟩ := by
  unfold Mixin.mergePaths
  congr 1

theorem isSome_lookup_of_keys {a b : List (String × J)} (h : a.map (·.1) = b.map (·.1)) (k : String) :
    (lookup k a).isSome = (lookup k b).isSome := by
  rw [Bool.eq_iff_iff, lookup_isSome_iff, lookup_isSome_iff, h]

/-- keys and reports of `mergePaths` are those of the generic first-wins fold over the path keys -/
theorem pathsFold_keys (f : Facts) (idx : Nat) (mp : List (String × J)) :
    ∀ (pk : List (String × J)) (acc : Mixin.PathsAcc), acc.paths.map (·.1) = pk.map (·.1) →
      (mp.foldl (pathsBody f idx) acc).paths.map (·.1) = (fw Doc.isPathKey pk mp).1.map (·.1) ∧
      (mp.foldl (pathsBody f idx) acc).warns =
        acc.warns ++ (fw Doc.isPathKey pk mp).2.map fun k => ("paths", k) := by
  induction mp with
  | nil => intro pk acc h; simp [h]
  | cons kv mp ih =>
    intro pk acc h
    simp only [List.foldl_cons]
    cases hP : Doc.isPathKey kv.1
    · rw [fw_cons_skip _ _ _ _ hP]
      have : pathsBody f idx acc kv = acc := by simp [pathsBody, hP]
      rw [this]; exact ih pk acc h
    · cases hs : (lookup kv.1 pk).isSome
      · rw [fw_cons_new _ _ _ _ hP hs]
        have hs' : (lookup kv.1 acc.paths).isSome = false := by rw [isSome_lookup_of_keys h]; exact hs
        have : pathsBody f idx acc kv =
            { acc with paths := acc.paths ++ [(kv.1, (Mixin.renameOps f idx acc.ids kv.2).1)],
                       ids := (Mixin.renameOps f idx acc.ids kv.2).2 } := by
          simp [pathsBody, hP, hs']
        rw [this]
        exact ih (pk ++ [kv]) _ (by simp [h])
      · rw [fw_cons_hit _ _ _ _ hP hs]
        have hs' : (lookup kv.1 acc.paths).isSome = true := by rw [isSome_lookup_of_keys h]; exact hs
        have : pathsBody f idx acc kv = { acc with warns := acc.warns ++ [("paths", kv.1)] } := by
          simp [pathsBody, hP, hs']
        rw [this]
        have := ih pk { acc with warns := acc.warns ++ [("paths", kv.1)] } h
        simp only [List.map_cons, List.append_assoc, List.cons_append, List.nil_append] at this ⊢
        exact this

theorem mergePaths_keys (f : Facts) (idx : Nat) (pp : List (String × J)) (ids : List String)
    (mp : List (String × J)) :
    (Mixin.mergePaths f idx pp ids mp).paths.map (·.1) = (fw Doc.isPathKey pp mp).1.map (·.1) := by
  rw [mergePaths_eq]; exact (pathsFold_keys f idx mp pp _ rfl).1

theorem mergePaths_warns (f : Facts) (idx : Nat) (pp : List (String × J)) (ids : List String)
    (mp : List (String × J)) :
    (Mixin.mergePaths f idx pp ids mp).warns.length = (fw Doc.isPathKey pp mp).2.length := by
  rw [mergePaths_eq, (pathsFold_keys f idx mp pp _ rfl).2]; simp

/-- the path items of `mergePaths` are those of the generic fold, up to operation ids -/
theorem pathsFold_strip (f : Facts) (hm : ∀ m ∈ f.mixinMethods, Doc.isMethodKey m = true)
    (idx : Nat) (k : String) (mp : List (String × J)) :
    ∀ (pk : List (String × J)) (acc : Mixin.PathsAcc), acc.paths.map (·.1) = pk.map (·.1) →
      (lookup k acc.paths).map stripOpIds = (lookup k pk).map stripOpIds →
      (lookup k (mp.foldl (pathsBody f idx) acc).paths).map stripOpIds =
        (lookup k (fw Doc.isPathKey pk mp).1).map stripOpIds := by
  induction mp with
  | nil => intro pk acc _ h; simpa using h
  | cons kv mp ih =>
    intro pk acc h hl
    simp only [List.foldl_cons]
    cases hP : Doc.isPathKey kv.1
    · rw [fw_cons_skip _ _ _ _ hP]
      have : pathsBody f idx acc kv = acc := by simp [pathsBody, hP]
      rw [this]; exact ih pk acc h hl
    · cases hs : (lookup kv.1 pk).isSome
      · rw [fw_cons_new _ _ _ _ hP hs]
        have hs' : (lookup kv.1 acc.paths).isSome = false := by rw [isSome_lookup_of_keys h]; exact hs
        have : pathsBody f idx acc kv =
            { acc with paths := acc.paths ++ [(kv.1, (Mixin.renameOps f idx acc.ids kv.2).1)],
                       ids := (Mixin.renameOps f idx acc.ids kv.2).2 } := by
          simp [pathsBody, hP, hs']
        rw [this]
        apply ih (pk ++ [kv]) _ (by simp [h])
        simp only [lookup_append, lookup]
        cases h1 : lookup k acc.paths <;> cases h2 : lookup k pk <;> simp only [h1, h2] at hl <;>
          simp_all [renameOps_strip f hm]
      · rw [fw_cons_hit _ _ _ _ hP hs]
        have hs' : (lookup kv.1 acc.paths).isSome = true := by rw [isSome_lookup_of_keys h]; exact hs
        have : pathsBody f idx acc kv = { acc with warns := acc.warns ++ [("paths", kv.1)] } := by
          simp [pathsBody, hP, hs']
        rw [this]
        exact ih pk _ h hl

theorem mergePaths_strip (f : Facts) (hm : ∀ m ∈ f.mixinMethods, Doc.isMethodKey m = true)
    (idx : Nat) (pp : List (String × J)) (ids : List String) (mp : List (String × J)) (k : String) :
    (lookup k (Mixin.mergePaths f idx pp ids mp).paths).map stripOpIds =
      (lookup k (fw Doc.isPathKey pp mp).1).map stripOpIds := by
  rw [mergePaths_eq]; exact pathsFold_strip f hm idx k mp pp _ rfl rfl

/-! ## one iteration of the loop -/

/-- the document after the list and keyed merges, from the one `mergeSwaggerProps` returns -/
def d8 (p1 m : J) : J :=
  (Mixin.mergeKeyed "definitions" "definitions"
    (Mixin.mergeList "security" (· == ·)
      (Mixin.mergeKeyed "securityDefinitions" "securityDefinitions"
        (Mixin.mergeList "schemes" (· == ·)
          (Mixin.mergeList "tags" Mixin.sameTag
            (Mixin.mergeList "produces" (· == ·)
              (Mixin.mergeList "consumes" (· == ·) p1 m).1 m).1 m).1 m).1 m).1 m).1 m).1

def dupTags (p1 m : J) : List J :=
  (Mixin.mergeList "tags" Mixin.sameTag
    (Mixin.mergeList "produces" (· == ·) (Mixin.mergeList "consumes" (· == ·) p1 m).1 m).1 m).2

def dupSec (p1 m : J) : List J :=
  (Mixin.mergeList "security" (· == ·)
    (Mixin.mergeKeyed "securityDefinitions" "securityDefinitions"
      (Mixin.mergeList "schemes" (· == ·)
        (Mixin.mergeList "tags" Mixin.sameTag
          (Mixin.mergeList "produces" (· == ·)
            (Mixin.mergeList "consumes" (· == ·) p1 m).1 m).1 m).1 m).1 m).1 m).2

def wSecDefs (p1 m : J) : List Mixin.Warn :=
  (Mixin.mergeKeyed "securityDefinitions" "securityDefinitions"
    (Mixin.mergeList "schemes" (· == ·)
      (Mixin.mergeList "tags" Mixin.sameTag
        (Mixin.mergeList "produces" (· == ·)
          (Mixin.mergeList "consumes" (· == ·) p1 m).1 m).1 m).1 m).1 m).2

def wDefs (p1 m : J) : List Mixin.Warn :=
  (Mixin.mergeKeyed "definitions" "definitions"
    (Mixin.mergeList "security" (· == ·)
      (Mixin.mergeKeyed "securityDefinitions" "securityDefinitions"
        (Mixin.mergeList "schemes" (· == ·)
          (Mixin.mergeList "tags" Mixin.sameTag
            (Mixin.mergeList "produces" (· == ·)
              (Mixin.mergeList "consumes" (· == ·) p1 m).1 m).1 m).1 m).1 m).1 m).1 m).2

/-- the document with the merged paths stored -/
def d9 (f : Facts) (idx : Nat) (ids : List String) (p1 m : J) : J :=
  (d8 p1 m).set "paths" (.obj (Mixin.mergePaths f idx ((d8 p1 m).getObj "paths") ids (m.getObj "paths")).paths)

def d10 (f : Facts) (idx : Nat) (ids : List String) (p1 m : J) : J :=
  (Mixin.mergeKeyed "parameters" "parameters" (d9 f idx ids p1 m) m).1

theorem step_eq (f : Facts) (idx : Nat) (st : Mixin.St) (m : J) :
    Mixin.step f idx st m =
      (Mixin.mergeSwaggerProps f st.doc m).map fun r =>
        { doc := (Mixin.mergeKeyed "responses" "responses" (d10 f idx st.ids r.1 m) m).1,
          ids := (Mixin.mergePaths f idx ((d8 r.1 m).getObj "paths") st.ids (m.getObj "paths")).ids,
          warns := st.warns ++ r.2 ++ (dupTags r.1 m).map (fun t => ("tags", t.getStr "name")) ++ wSecDefs r.1 m ++
            (dupSec r.1 m).map (fun _ => ("security", "")) ++ wDefs r.1 m ++
            (Mixin.mergePaths f idx ((d8 r.1 m).getObj "paths") st.ids (m.getObj "paths")).warns ++
            (Mixin.mergeKeyed "parameters" "parameters" (d9 f idx st.ids r.1 m) m).2 ++
            (Mixin.mergeKeyed "responses" "responses" (d10 f idx st.ids r.1 m) m).2 } := by
  unfold Mixin.step
  cases Mixin.mergeSwaggerProps f st.doc m <;> rfl

theorem d8_isObj (p1 m : J) : (d8 p1 m).isObj = p1.isObj := by
  simp only [d8, mergeKeyed_isObj, mergeList_isObj]

theorem d8_get? (p1 m : J) (k : String)
    (hk : k ∉ ["consumes", "produces", "tags", "schemes", "securityDefinitions", "security", "definitions"]) :
    (d8 p1 m).get? k = p1.get? k := by
  simp only [List.mem_cons, List.not_mem_nil, or_false, not_or] at hk
  unfold d8
  rw [mergeKeyed_get?_ne _ _ _ _ _ hk.2.2.2.2.2.2, mergeList_get?_ne _ _ _ _ _ hk.2.2.2.2.2.1,
    mergeKeyed_get?_ne _ _ _ _ _ hk.2.2.2.2.1, mergeList_get?_ne _ _ _ _ _ hk.2.2.2.1,
    mergeList_get?_ne _ _ _ _ _ hk.2.2.1, mergeList_get?_ne _ _ _ _ _ hk.2.1,
    mergeList_get?_ne _ _ _ _ _ hk.1]

theorem mergeList_getArr_ne (k k₂ : String) (same : J → J → Bool) (p m : J) (h : k₂ ≠ k) :
    (Mixin.mergeList k same p m).1.getArr k₂ = p.getArr k₂ :=
  getArr_congr _ _ _ (mergeList_get?_ne _ _ _ _ _ h)

theorem mergeList_getObj_ne (k k₂ : String) (same : J → J → Bool) (p m : J) (h : k₂ ≠ k) :
    (Mixin.mergeList k same p m).1.getObj k₂ = p.getObj k₂ :=
  getObj_congr _ _ _ (mergeList_get?_ne _ _ _ _ _ h)

theorem mergeKeyed_getArr_ne (sect cat k₂ : String) (p m : J) (h : k₂ ≠ sect) :
    (Mixin.mergeKeyed sect cat p m).1.getArr k₂ = p.getArr k₂ :=
  getArr_congr _ _ _ (mergeKeyed_get?_ne _ _ _ _ _ h)

theorem mergeKeyed_getObj_ne (sect cat k₂ : String) (p m : J) (h : k₂ ≠ sect) :
    (Mixin.mergeKeyed sect cat p m).1.getObj k₂ = p.getObj k₂ :=
  getObj_congr _ _ _ (mergeKeyed_get?_ne _ _ _ _ _ h)

/-- drop the merges that do not touch the field being read -/
macro "strip_frames" : tactic =>
  `(tactic| try simp (disch := decide) only [mergeKeyed_getArr_ne, mergeList_getArr_ne, mergeKeyed_getObj_ne,
      mergeList_getObj_ne, getArr_set_ne, getObj_set_ne, mergeKeyed_get?_ne, mergeList_get?_ne, get?_set_ne])

macro "obj_frames" : tactic =>
  `(tactic| try simp only [mergeKeyed_isObj, mergeList_isObj, isObj_set])

theorem d8_consumes (p1 m : J) (hp : p1.isObj = true) :
    (d8 p1 m).getArr "consumes" = unionNew (· == ·) (p1.getArr "consumes") (m.getArr "consumes") := by
  unfold d8; strip_frames
  rw [mergeList_getArr _ _ _ _ (by obj_frames; exact hp)]

theorem d8_produces (p1 m : J) (hp : p1.isObj = true) :
    (d8 p1 m).getArr "produces" = unionNew (· == ·) (p1.getArr "produces") (m.getArr "produces") := by
  unfold d8; strip_frames
  rw [mergeList_getArr _ _ _ _ (by obj_frames; exact hp)]; strip_frames

theorem d8_tags (p1 m : J) (hp : p1.isObj = true) :
    (d8 p1 m).getArr "tags" = unionNew sameTag (p1.getArr "tags") (m.getArr "tags") := by
  unfold d8; strip_frames
  rw [mergeList_getArr _ _ _ _ (by obj_frames; exact hp)]; strip_frames; rfl

theorem d8_schemes (p1 m : J) (hp : p1.isObj = true) :
    (d8 p1 m).getArr "schemes" = unionNew (· == ·) (p1.getArr "schemes") (m.getArr "schemes") := by
  unfold d8; strip_frames
  rw [mergeList_getArr _ _ _ _ (by obj_frames; exact hp)]; strip_frames

theorem d8_security (p1 m : J) (hp : p1.isObj = true) :
    (d8 p1 m).getArr "security" = unionNew (· == ·) (p1.getArr "security") (m.getArr "security") := by
  unfold d8; strip_frames
  rw [mergeList_getArr _ _ _ _ (by obj_frames; exact hp)]; strip_frames

theorem d8_securityDefinitions (p1 m : J) (hp : p1.isObj = true) :
    (d8 p1 m).getObj "securityDefinitions" =
      (fw allKeys (p1.getObj "securityDefinitions") (m.getObj "securityDefinitions")).1 := by
  unfold d8; strip_frames
  rw [mergeKeyed_getObj _ _ _ _ (by obj_frames; exact hp)]; strip_frames

theorem d8_definitions (p1 m : J) (hp : p1.isObj = true) :
    (d8 p1 m).getObj "definitions" = (fw allKeys (p1.getObj "definitions") (m.getObj "definitions")).1 := by
  unfold d8
  rw [mergeKeyed_getObj _ _ _ _ (by obj_frames; exact hp)]; strip_frames

theorem dupTags_length (p1 m : J) :
    (unionNew sameTag (p1.getArr "tags") (m.getArr "tags")).length + (dupTags p1 m).length =
      (p1.getArr "tags").length + (m.getArr "tags").length := by
  have := mergeList_dups "tags" Mixin.sameTag
    (Mixin.mergeList "produces" (· == ·) (Mixin.mergeList "consumes" (· == ·) p1 m).1 m).1 m
  revert this; strip_frames; exact id

theorem dupSec_length (p1 m : J) :
    (unionNew (· == ·) (p1.getArr "security") (m.getArr "security")).length + (dupSec p1 m).length =
      (p1.getArr "security").length + (m.getArr "security").length := by
  have := mergeList_dups "security" (· == ·)
    (Mixin.mergeKeyed "securityDefinitions" "securityDefinitions"
      (Mixin.mergeList "schemes" (· == ·)
        (Mixin.mergeList "tags" Mixin.sameTag
          (Mixin.mergeList "produces" (· == ·)
            (Mixin.mergeList "consumes" (· == ·) p1 m).1 m).1 m).1 m).1 m).1 m
  revert this; strip_frames; exact id

theorem wSecDefs_length (p1 m : J) :
    (wSecDefs p1 m).length =
      (fw allKeys (p1.getObj "securityDefinitions") (m.getObj "securityDefinitions")).2.length := by
  unfold wSecDefs; rw [mergeKeyed_warns]; strip_frames

theorem wDefs_length (p1 m : J) :
    (wDefs p1 m).length = (fw allKeys (p1.getObj "definitions") (m.getObj "definitions")).2.length := by
  unfold wDefs; rw [mergeKeyed_warns]; strip_frames

/-- the document at the end of the iteration -/
def d11 (f : Facts) (idx : Nat) (ids : List String) (p1 m : J) : J :=
  (Mixin.mergeKeyed "responses" "responses" (d10 f idx ids p1 m) m).1

theorem d11_isObj (f : Facts) (idx : Nat) (ids : List String) (p1 m : J) :
    (d11 f idx ids p1 m).isObj = p1.isObj := by
  unfold d11 d10 d9; obj_frames; exact d8_isObj _ _

theorem d11_get? (f : Facts) (idx : Nat) (ids : List String) (p1 m : J) (k : String)
    (hk : k ∉ ["paths", "parameters", "responses"]) :
    (d11 f idx ids p1 m).get? k = (d8 p1 m).get? k := by
  simp only [List.mem_cons, List.not_mem_nil, or_false, not_or] at hk
  unfold d11 d10 d9
  rw [mergeKeyed_get?_ne _ _ _ _ _ hk.2.2, mergeKeyed_get?_ne _ _ _ _ _ hk.2.1, get?_set_ne _ _ _ _ hk.1]

theorem d11_paths (f : Facts) (idx : Nat) (ids : List String) (p1 m : J) (hp : p1.isObj = true) :
    (d11 f idx ids p1 m).getObj "paths" =
      (Mixin.mergePaths f idx (p1.getObj "paths") ids (m.getObj "paths")).paths := by
  unfold d11 d10 d9; strip_frames
  rw [getObj_set_self _ _ _ (by rw [d8_isObj]; exact hp), getObj_congr _ _ _ (d8_get? p1 m "paths" (by decide))]

theorem d11_parameters (f : Facts) (idx : Nat) (ids : List String) (p1 m : J) (hp : p1.isObj = true) :
    (d11 f idx ids p1 m).getObj "parameters" =
      (fw allKeys (p1.getObj "parameters") (m.getObj "parameters")).1 := by
  unfold d11 d10; strip_frames
  rw [mergeKeyed_getObj _ _ _ _ (by unfold d9; obj_frames; rw [d8_isObj]; exact hp)]
  unfold d9; strip_frames
  rw [getObj_congr _ _ _ (d8_get? p1 m "parameters" (by decide))]

theorem d11_responses (f : Facts) (idx : Nat) (ids : List String) (p1 m : J) (hp : p1.isObj = true) :
    (d11 f idx ids p1 m).getObj "responses" =
      (fw allKeys (p1.getObj "responses") (m.getObj "responses")).1 := by
  unfold d11
  rw [mergeKeyed_getObj _ _ _ _ (by unfold d10 d9; obj_frames; rw [d8_isObj]; exact hp)]
  unfold d10 d9; strip_frames
  rw [getObj_congr _ _ _ (d8_get? p1 m "responses" (by decide))]

theorem wParams_length (f : Facts) (idx : Nat) (ids : List String) (p1 m : J) :
    (Mixin.mergeKeyed "parameters" "parameters" (d9 f idx ids p1 m) m).2.length =
      (fw allKeys (p1.getObj "parameters") (m.getObj "parameters")).2.length := by
  rw [mergeKeyed_warns]; unfold d9; strip_frames
  rw [getObj_congr _ _ _ (d8_get? p1 m "parameters" (by decide))]

theorem wResponses_length (f : Facts) (idx : Nat) (ids : List String) (p1 m : J) :
    (Mixin.mergeKeyed "responses" "responses" (d10 f idx ids p1 m) m).2.length =
      (fw allKeys (p1.getObj "responses") (m.getObj "responses")).2.length := by
  rw [mergeKeyed_warns]; unfold d10 d9; strip_frames
  rw [getObj_congr _ _ _ (d8_get? p1 m "responses" (by decide))]

/-- the keys of the sections merged after `mergeSwaggerProps` -/
def sectionKeys : List String :=
  ["consumes", "produces", "tags", "schemes", "securityDefinitions", "security", "definitions",
   "paths", "parameters", "responses"]

/-- one iteration, field by field: `p1, w1` is what `mergeSwaggerProps` returned -/
structure StepFacts (f : Facts) (idx : Nat) (st : Mixin.St) (m p1 : J) (w1 : List Mixin.Warn)
    (st' : Mixin.St) : Prop where
  props : PropsFacts st.doc m p1 w1
  isObj : st'.doc.isObj = true
  top : ∀ k, k ∉ sectionKeys → st'.doc.get? k = p1.get? k
  consumes : st'.doc.getArr "consumes" = unionNew (· == ·) (st.doc.getArr "consumes") (m.getArr "consumes")
  produces : st'.doc.getArr "produces" = unionNew (· == ·) (st.doc.getArr "produces") (m.getArr "produces")
  tags : st'.doc.getArr "tags" = unionNew sameTag (st.doc.getArr "tags") (m.getArr "tags")
  schemes : st'.doc.getArr "schemes" = unionNew (· == ·) (st.doc.getArr "schemes") (m.getArr "schemes")
  security : st'.doc.getArr "security" = unionNew (· == ·) (st.doc.getArr "security") (m.getArr "security")
  keyed : ∀ sect ∈ ["definitions", "parameters", "responses", "securityDefinitions"],
    st'.doc.getObj sect = (fw allKeys (st.doc.getObj sect) (m.getObj sect)).1
  paths : st'.doc.getObj "paths" =
    (Mixin.mergePaths f idx (st.doc.getObj "paths") st.ids (m.getObj "paths")).paths
  ids : st'.ids = (Mixin.mergePaths f idx (st.doc.getObj "paths") st.ids (m.getObj "paths")).ids
  warns : st'.warns.length + (st'.doc.getArr "tags").length + (st'.doc.getArr "security").length =
    st.warns.length + w1.length
      + ((st.doc.getArr "tags").length + (m.getArr "tags").length)
      + ((st.doc.getArr "security").length + (m.getArr "security").length)
      + (fw allKeys (st.doc.getObj "securityDefinitions") (m.getObj "securityDefinitions")).2.length
      + (fw allKeys (st.doc.getObj "definitions") (m.getObj "definitions")).2.length
      + (fw Doc.isPathKey (st.doc.getObj "paths") (m.getObj "paths")).2.length
      + (fw allKeys (st.doc.getObj "parameters") (m.getObj "parameters")).2.length
      + (fw allKeys (st.doc.getObj "responses") (m.getObj "responses")).2.length

theorem step_facts (f : Facts) (idx : Nat) (st : Mixin.St) (m : J) (st' : Mixin.St)
    (h : Mixin.step f idx st m = some st') (hp : st.doc.isObj = true) :
    ∃ p1 w1, StepFacts f idx st m p1 w1 st' := by
  rw [step_eq] at h
  cases hs : Mixin.mergeSwaggerProps f st.doc m with
  | none => simp [hs] at h
  | some r =>
    obtain ⟨p1, w1⟩ := r
    simp only [hs, Option.map_some, Option.some.injEq] at h
    have pf := mergeSwaggerProps_facts f st.doc m p1 w1 hs hp
    have hp1 := pf.isObj
    have fr : ∀ k, k ∈ sectionKeys → p1.get? k = st.doc.get? k := by
      intro k hk
      apply pf.frame k
      · revert k; decide
      · revert k; decide
    have frA : ∀ k, k ∈ sectionKeys → p1.getArr k = st.doc.getArr k :=
      fun k hk => getArr_congr _ _ _ (fr k hk)
    have frO : ∀ k, k ∈ sectionKeys → p1.getObj k = st.doc.getObj k :=
      fun k hk => getObj_congr _ _ _ (fr k hk)
    have hdoc : st'.doc = d11 f idx st.ids p1 m := by rw [← h]; rfl
    have hA : ∀ k, k ∉ ["paths", "parameters", "responses"] → st'.doc.getArr k = (d8 p1 m).getArr k :=
      fun k hk => by rw [hdoc]; exact getArr_congr _ _ _ (d11_get? _ _ _ _ _ _ hk)
    refine ⟨p1, w1, pf, ?_, ?_, ?_, ?_, ?_, ?_, ?_, ?_, ?_, ?_, ?_⟩
    · rw [hdoc, d11_isObj]; exact hp1
    · intro k hk
      have s1 : ["paths", "parameters", "responses"] ⊆ sectionKeys := by decide
      have s2 : ["consumes", "produces", "tags", "schemes", "securityDefinitions", "security", "definitions"]
          ⊆ sectionKeys := by decide
      rw [hdoc, d11_get? _ _ _ _ _ _ (fun hm => hk (s1 hm)), d8_get? _ _ _ (fun hm => hk (s2 hm))]
    · rw [hA _ (by decide), d8_consumes _ _ hp1, frA _ (by decide)]
    · rw [hA _ (by decide), d8_produces _ _ hp1, frA _ (by decide)]
    · rw [hA _ (by decide), d8_tags _ _ hp1, frA _ (by decide)]
    · rw [hA _ (by decide), d8_schemes _ _ hp1, frA _ (by decide)]
    · rw [hA _ (by decide), d8_security _ _ hp1, frA _ (by decide)]
    · intro sect hsect
      simp only [List.mem_cons, List.not_mem_nil, or_false] at hsect
      rcases hsect with rfl | rfl | rfl | rfl
      · rw [hdoc, getObj_congr _ _ _ (d11_get? _ _ _ _ _ _ (by decide)), d8_definitions _ _ hp1,
          frO _ (by decide)]
      · rw [hdoc, d11_parameters _ _ _ _ _ hp1, frO _ (by decide)]
      · rw [hdoc, d11_responses _ _ _ _ _ hp1, frO _ (by decide)]
      · rw [hdoc, getObj_congr _ _ _ (d11_get? _ _ _ _ _ _ (by decide)), d8_securityDefinitions _ _ hp1,
          frO _ (by decide)]
    · rw [hdoc, d11_paths _ _ _ _ _ hp1, frO _ (by decide)]
    · rw [← h]
      simp only
      rw [getObj_congr _ _ _ (d8_get? p1 m "paths" (by decide)), frO _ (by decide)]
    · have e1 := dupTags_length p1 m
      have e2 := dupSec_length p1 m
      rw [hA "tags" (by decide), hA "security" (by decide), d8_tags _ _ hp1, d8_security _ _ hp1]
      rw [← frA "tags" (by decide), ← frA "security" (by decide),
        ← frO "securityDefinitions" (by decide), ← frO "definitions" (by decide),
        ← frO "paths" (by decide), ← frO "parameters" (by decide), ← frO "responses" (by decide)]
      rw [← wSecDefs_length, ← wDefs_length, ← wParams_length f idx st.ids, ← wResponses_length f idx st.ids,
        ← mergePaths_warns f idx _ st.ids]
      rw [← h]
      simp only [List.length_append, List.length_map]
      rw [getObj_congr _ _ _ (d8_get? p1 m "paths" (by decide))]
      omega

end Proofs.Mixin
