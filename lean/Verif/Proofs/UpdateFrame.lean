import Verif.Proofs.MoveBase
import Verif.Proofs.ReplaceKeys

/-!
  What `UpdateRef` changes and what it leaves in place (since the repair `076e7ce`): the schema at the key
  gets the new `$ref`; every member of that schema other than `$ref` — its sibling keywords, with everything
  below them — is found unchanged under the same pointer.
-/

namespace Proofs.UpdateFrame
open J Replace

theorem updateRef_shape (d : J) (key ref : String) (d' : J) (h : updateRef d key ref = .ok d') :
    ∃ node, Spec.Pointer.get d (keyTokens key) = some node ∧
      setAt d (keyTokens key) (node.set "$ref" (.str ref)) = some d' := by
  unfold updateRef at h
  simp only at h
  split at h
  · cases h
  · rename_i node kind hw
    have hg := ReplaceKeys.get_of_walk hw
    split at h
    all_goals first
      | (split at h
         · rename_i d'' hs; cases h; exact ⟨node, hg, hs⟩
         · cases h)
      | cases h

/-- the schema at the key carries the new `$ref` … -/
theorem updateRef_sets (d : J) (key ref : String) (d' : J) (h : updateRef d key ref = .ok d') :
    ∃ node, Spec.Pointer.get d (keyTokens key) = some node ∧
      Spec.Pointer.get d' (keyTokens key) = some (node.set "$ref" (.str ref)) := by
  obtain ⟨node, hg, hs⟩ := updateRef_shape d key ref d' h
  exact ⟨node, hg, MoveBase.get_setAt_self _ _ _ _ hs⟩

theorem get_set_ne (node v : J) (t : String) (rest : List String) (ht : t ≠ "$ref") :
    Spec.Pointer.get (node.set "$ref" v) (t :: rest) = Spec.Pointer.get node (t :: rest) := by
  cases node with
  | obj kvs =>
    simp only [J.set, Spec.Pointer.get, Spec.Pointer.step]
    rw [J.lookup_setKv_ne _ _ _ _ ht]
  | _ => rfl

/-- … and its sibling keywords, with everything below them, stay where they were -/
theorem updateRef_keeps_siblings (d : J) (key ref : String) (d' : J) (h : updateRef d key ref = .ok d')
    (t : String) (ht : t ≠ "$ref") (rest : List String) :
    Spec.Pointer.get d' (keyTokens key ++ t :: rest) = Spec.Pointer.get d (keyTokens key ++ t :: rest) := by
  obtain ⟨node, hg, hg'⟩ := updateRef_sets d key ref d' h
  rw [MoveBase.get_append, MoveBase.get_append, hg, hg']
  exact get_set_ne node _ t rest ht

end Proofs.UpdateFrame
