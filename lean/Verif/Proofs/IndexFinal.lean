import Verif.Proofs.IndexSpecViews

/-!
  C11 / C12 (schemas_exact) / C13 in the form the property files invoke.
-/

namespace IndexProof
open J Analyzer Spec.Index Str ListPerm

variable (f : Facts)
  (hm : f.analyzerMethods.Perm (Doc.methods.map fun m => (Str.toUpperAscii m, m)))
  (hd : f.defaultHeaderEnums = true) (d : J) (h : WF' d)

include hm hd h

theorem refsWhere_perm (p : String → Bool) :
    (Index.refsWhere p (analyze f d)).Perm (refsSpec p d) := by
  rw [← refs_specLog]
  unfold Index.refsWhere
  exact view_perm _ (by intro e he; cases e <;> simp_all [isJunk]) f hm hd d h

theorem patternsWhere_perm (p : String → Bool) :
    (Index.patternsWhere p (analyze f d)).Perm (patsSpec p d) := by
  refine List.Perm.trans ?_ (pats_specLog p d)
  unfold Index.patternsWhere
  exact view_perm _ (by intro e he; cases e <;> simp_all [isJunk]) f hm hd d h

theorem enumsWhere_perm (p : String → Bool) :
    (Index.enumsWhere p (analyze f d)).Perm (enumsSpec p d) := by
  refine List.Perm.trans ?_ (enums_specLog p d)
  unfold Index.enumsWhere
  exact view_perm _ (by intro e he; cases e <;> simp_all [isJunk]) f hm hd d h

theorem schemas_perm : (Index.schemas (analyze f d)).Perm ((allSchemas d).map schemaEntry) := by
  rw [← schemas_specLog]
  unfold Index.schemas
  exact view_perm _ (by intro e he; cases e <;> simp_all [isJunk]) f hm hd d h

theorem refs_kind (kind : String) (ps : List Pos) (hk : (kind, ps) ∈ refKinds d) :
    (Index.refsWhere (· = kind) (analyze f d)).Perm (refsOf ps) := by
  have := refsWhere_perm f hm hd d h (· = kind)
  simp only [refKinds, List.mem_cons, List.not_mem_nil, or_false, Prod.mk.injEq] at hk
  rcases hk with ⟨rfl, rfl⟩ | ⟨rfl, rfl⟩ | ⟨rfl, rfl⟩ | ⟨rfl, rfl⟩ | ⟨rfl, rfl⟩ | ⟨rfl, rfl⟩ <;>
    simpa [refsSpec] using this

theorem refs_all :
    (Index.refsWhere (fun _ => true) (analyze f d)).Perm ((refKinds d).flatMap fun kp => refsOf kp.2) := by
  have := refsWhere_perm f hm hd d h (fun _ => true)
  simpa [refsSpec, refKinds] using this

theorem patterns_cat (cat : String) (ps : List Pos) (hk : (cat, ps) ∈ patCats d) :
    (Index.patternsWhere (· = cat) (analyze f d)).Perm (patternsOf ps) := by
  have := patternsWhere_perm f hm hd d h (· = cat)
  simp only [patCats, List.mem_cons, List.not_mem_nil, or_false, Prod.mk.injEq] at hk
  rcases hk with ⟨rfl, rfl⟩ | ⟨rfl, rfl⟩ | ⟨rfl, rfl⟩ | ⟨rfl, rfl⟩ <;>
    simpa [patsSpec] using this

theorem patterns_all :
    (Index.patternsWhere (fun _ => true) (analyze f d)).Perm
      ((patCats d).flatMap fun cp => patternsOf cp.2) := by
  have := patternsWhere_perm f hm hd d h (fun _ => true)
  simpa [patsSpec, patCats] using this

theorem enums_cat (cat : String) (ps : List Pos) (hk : (cat, ps) ∈ patCats d) :
    (Index.enumsWhere (· = cat) (analyze f d)).Perm (enumsOf ps) := by
  have := enumsWhere_perm f hm hd d h (· = cat)
  simp only [patCats, List.mem_cons, List.not_mem_nil, or_false, Prod.mk.injEq] at hk
  rcases hk with ⟨rfl, rfl⟩ | ⟨rfl, rfl⟩ | ⟨rfl, rfl⟩ | ⟨rfl, rfl⟩ <;>
    simpa [enumsSpec] using this

theorem enums_all :
    (Index.enumsWhere (fun _ => true) (analyze f d)).Perm
      ((patCats d).flatMap fun cp => enumsOf cp.2) := by
  have := enumsWhere_perm f hm hd d h (fun _ => true)
  simpa [enumsSpec, patCats] using this

end IndexProof
