import Verif.Proofs.Classify

/-!
  Termination of `Classify.classify` under the `$ref` guard (C20 `terminates`).

  The recursion either descends into `items` / `additionalProperties` of the current node (nesting
  depth decreases), or jumps at a `$ref` that is not on the stack to a node of the root document and
  pushes the `$ref` on the stack.  Every `$ref` that is pushed is read from an object below the
  schema or below the root, so the pushed strings all come from the finite list
  `allRefs s ++ allRefs root`; with the guard each of them is pushed at most once per stack.
-/

namespace Proofs.Classify
open J _root_.Classify

/-! ### nesting depth and the `$ref` strings of a JSON tree -/

mutual
  def depth : J → Nat
    | .obj kvs => depthKvs kvs + 1
    | .arr xs => depthList xs + 1
    | _ => 1
  def depthKvs : List (String × J) → Nat
    | [] => 0
    | (_, v) :: rest => max (depth v) (depthKvs rest)
  def depthList : List J → Nat
    | [] => 0
    | v :: rest => max (depth v) (depthList rest)
end

-- the `$ref` string under every object of a JSON tree
mutual
  def allRefs : J → List String
    | .obj kvs => (match lookup "$ref" kvs with | some (.str r) => [r] | _ => []) ++ allRefsKvs kvs
    | .arr xs => allRefsList xs
    | _ => []
  def allRefsKvs : List (String × J) → List String
    | [] => []
    | (_, v) :: rest => allRefs v ++ allRefsKvs rest
  def allRefsList : List J → List String
    | [] => []
    | v :: rest => allRefs v ++ allRefsList rest
end

/-- `Sub t j`: `t` is `j` or a node below it -/
inductive Sub : J → J → Prop where
  | refl (j : J) : Sub j j
  | arr {t x : J} {xs : List J} : x ∈ xs → Sub t x → Sub t (.arr xs)
  | obj {t v : J} {k : String} {kvs : List (String × J)} : (k, v) ∈ kvs → Sub t v → Sub t (.obj kvs)

theorem depth_pos (j : J) : 1 ≤ depth j := by
  cases j <;> simp [depth]

theorem depth_le_depthList {x : J} {xs : List J} (h : x ∈ xs) : depth x ≤ depthList xs := by
  induction xs with
  | nil => cases h
  | cons y ys ih =>
    rw [depthList]
    rcases List.mem_cons.mp h with rfl | h
    · exact Nat.le_max_left ..
    · exact Nat.le_trans (ih h) (Nat.le_max_right ..)

theorem depth_le_depthKvs {k : String} {v : J} {kvs : List (String × J)} (h : (k, v) ∈ kvs) :
    depth v ≤ depthKvs kvs := by
  induction kvs with
  | nil => cases h
  | cons y ys ih =>
    obtain ⟨k', v'⟩ := y
    rw [depthKvs]
    rcases List.mem_cons.mp h with h | h
    · cases h; exact Nat.le_max_left ..
    · exact Nat.le_trans (ih h) (Nat.le_max_right ..)

theorem Sub.depth_le {t j : J} (h : Sub t j) : depth t ≤ depth j := by
  induction h with
  | refl => exact Nat.le_refl _
  | arr hx _ ih => simp only [depth]; have := depth_le_depthList hx; omega
  | obj hx _ ih => simp only [depth]; have := depth_le_depthKvs hx; omega

theorem Sub.trans {a b c : J} (h1 : Sub a b) (h2 : Sub b c) : Sub a c := by
  induction h2 with
  | refl => exact h1
  | arr hx _ ih => exact .arr hx ih
  | obj hx _ ih => exact .obj hx ih

theorem allRefs_sub_list {x : J} {xs : List J} (h : x ∈ xs) : allRefs x ⊆ allRefsList xs := by
  induction xs with
  | nil => cases h
  | cons y ys ih =>
    rw [allRefsList]
    rcases List.mem_cons.mp h with rfl | h
    · exact List.subset_append_left ..
    · exact List.subset_append_of_subset_right _ (ih h)

theorem allRefs_sub_kvs {k : String} {v : J} {kvs : List (String × J)} (h : (k, v) ∈ kvs) :
    allRefs v ⊆ allRefsKvs kvs := by
  induction kvs with
  | nil => cases h
  | cons y ys ih =>
    obtain ⟨k', v'⟩ := y
    rw [allRefsKvs]
    rcases List.mem_cons.mp h with h | h
    · cases h; exact List.subset_append_left ..
    · exact List.subset_append_of_subset_right _ (ih h)

theorem Sub.allRefs_subset {t j : J} (h : Sub t j) : allRefs t ⊆ allRefs j := by
  induction h with
  | refl => exact List.Subset.refl _
  | arr hx _ ih => simp only [allRefs]; exact List.Subset.trans ih (allRefs_sub_list hx)
  | obj hx _ ih =>
    simp only [allRefs]
    exact List.subset_append_of_subset_right _ (List.Subset.trans ih (allRefs_sub_kvs hx))

/-- the `$ref` of a node is one of its `allRefs` -/
theorem refStr_mem_allRefs {s : J} (h : Doc.refStr s ≠ "") : Doc.refStr s ∈ allRefs s := by
  unfold Doc.refStr getStr at *
  cases s with
  | obj kvs =>
    simp only [get?] at h ⊢
    rw [allRefs]
    cases hl : lookup "$ref" kvs with
    | none => simp [hl] at h
    | some v => cases v <;> simp_all
  | _ => simp [get?] at h

/-! ### children and resolved nodes are sub-nodes -/

theorem lookup_mem {k : String} {kvs : List (String × J)} {v : J} (h : lookup k kvs = some v) :
    (k, v) ∈ kvs := by
  induction kvs with
  | nil => cases h
  | cons y ys ih =>
    obtain ⟨k', v'⟩ := y
    rw [lookup_cons] at h
    split at h
    · rename_i hk; cases h; subst hk; exact List.mem_cons_self ..
    · exact List.mem_cons_of_mem _ (ih h)

theorem step_sub {d c : J} {t : String} (h : Spec.Pointer.step d t = some c) :
    Sub c d := by
  cases d with
  | obj kvs => exact .obj (lookup_mem h) (.refl c)
  | arr xs =>
    simp only [Spec.Pointer.step, Option.bind_eq_some_iff] at h
    obtain ⟨i, _, hi⟩ := h
    exact .arr (List.mem_of_getElem? hi) (.refl c)
  | _ => cases h

theorem get_sub {toks : List String} : ∀ {d t : J}, Spec.Pointer.get d toks = some t → Sub t d := by
  induction toks with
  | nil => intro d t h; cases h; exact .refl _
  | cons tok toks ih =>
    intro d t h
    simp only [Spec.Pointer.get, Option.bind_eq_some_iff] at h
    obtain ⟨c, hc, h⟩ := h
    exact (ih h).trans (step_sub hc)

theorem resolve_sub {x : Ext} {root target : J} {r : String} (h : resolve x root r = some target) :
    Sub target root := by
  simp only [resolve, Option.bind_eq_some_iff] at h
  obtain ⟨toks, _, h⟩ := h
  exact get_sub h

theorem field_sub {s c : J} {k : String} (h : s.get? k = some c) : Sub c s ∧ depth c < depth s := by
  cases s with
  | obj kvs =>
    have hm := lookup_mem (show lookup k kvs = some c from h)
    refine ⟨.obj hm (.refl c), ?_⟩
    have := depth_le_depthKvs hm
    simp only [depth]; omega
  | _ => cases h

theorem itemsOf_sub {s it : J} (h : itemsOf s = some (.inl it)) : Sub it s ∧ depth it < depth s := by
  unfold itemsOf at h
  split at h
  · rename_i kvs hg; cases h; exact field_sub hg
  · cases h
  · cases h

theorem schemaOrBool_sub {s sch : J} {k : String} {b : Bool} (h : schemaOrBool s k = some (some sch, b)) :
    Sub sch s ∧ depth sch < depth s := by
  unfold schemaOrBool at h
  split at h
  · rename_i kvs hg; cases h; exact field_sub hg
  · cases h
  · cases h

/-! ### the `$ref`s that are not yet on the stack -/

def unvisited (R visited : List String) : Nat := R.countP fun r => !visited.contains r

theorem unvisited_push_le (R visited : List String) (r : String) :
    unvisited R (r :: visited) ≤ unvisited R visited := by
  unfold unvisited
  apply List.countP_mono_left
  intro a _ h
  simp only [List.contains_cons, Bool.not_or, Bool.and_eq_true] at h
  exact h.2

theorem unvisited_push_lt {R visited : List String} {r : String} (hr : r ∈ R)
    (hv : visited.contains r = false) : unvisited R (r :: visited) < unvisited R visited := by
  induction R with
  | nil => cases hr
  | cons a R ih =>
    have hle := unvisited_push_le R visited r
    unfold unvisited at ih hle ⊢
    rw [List.countP_cons, List.countP_cons]
    by_cases ha : a = r
    · subst ha
      have h1 : (!(a :: visited).contains a) = false := by simp
      have h2 : (!visited.contains a) = true := by rw [hv]; rfl
      rw [h1, h2]
      simp only [Bool.false_eq_true, if_false, if_true]
      omega
    · have := ih (by rcases List.mem_cons.mp hr with h | h; exact absurd h.symm ha; exact h)
      have h1 : (!(r :: visited).contains a) = (!visited.contains a) := by
        have hb : (a == r) = false := by simpa using ha
        rw [List.contains_cons, hb, Bool.false_or]
      rw [h1]
      omega


/-! ### one step of `classify` returns as soon as its recursive calls return -/

theorem bind_ne_outOfFuel' {α β} (o : Outcome α) (g : α → Outcome β)
    (h1 : o ≠ .outOfFuel) (h2 : ∀ a, o = .ok a → g a ≠ .outOfFuel) : o.bind g ≠ .outOfFuel := by
  cases o with
  | ok a => exact h2 a rfl
  | err e => intro h; cases h
  | panic w => intro h; cases h
  | outOfFuel => exact absurd rfl h1

theorem mapStep_ne {fc : Facts} {x : Ext} {root : J} {fuel : Nat} {visited : List String} {s : J} {f : Flags}
    (hm : ∀ sch b, schemaOrBool s "additionalProperties" = some (some sch, b) →
      classify fc x root fuel visited sch ≠ .outOfFuel) :
    mapStep fc x root fuel visited s f ≠ .outOfFuel := by
  unfold mapStep
  split
  · split
    · rename_i sch b hs
      exact bind_ne_outOfFuel' _ _ (hm sch b hs) (fun _ _ h => by cases h)
    · intro h; cases h
    · intro h; cases h
  · intro h; cases h

theorem arrStep_ne {fc : Facts} {x : Ext} {root : J} {fuel : Nat} {visited : List String} {s : J} {f : Flags}
    (ha : ∀ it, itemsOf s = some (.inl it) → classify fc x root fuel visited it ≠ .outOfFuel) :
    arrStep fc x root fuel visited s f ≠ .outOfFuel := by
  unfold arrStep
  split
  · split
    · rename_i it hs
      exact bind_ne_outOfFuel' _ _ (ha it hs) (fun _ _ h => by cases h)
    · intro h; cases h
  · intro h; cases h

theorem refStep_ne {fc : Facts} {x : Ext} {root : J} {fuel : Nat} {visited : List String} {s : J} {f : Flags}
    (hr : f.hasRef = true → (fc.schemaRefGuard && visited.contains (Doc.refStr s)) = false →
      ∀ target, resolve x root (Doc.refStr s) = some target →
        classify fc x root fuel (Doc.refStr s :: visited) target ≠ .outOfFuel) :
    refStep fc x root fuel visited s f ≠ .outOfFuel := by
  unfold refStep
  split
  · rename_i h1
    split
    · intro h; cases h
    · rename_i h2
      split
      · intro h; cases h
      · split
        · intro h; cases h
        · rename_i target ht
          exact bind_ne_outOfFuel' _ _ (hr h1 (by simpa using h2) target ht) (fun _ _ h => by cases h)
  · intro h; cases h

theorem classify_succ_ne {fc : Facts} {x : Ext} {root : J} {fuel : Nat} {visited : List String} {s : J}
    (hm : ∀ sch b, schemaOrBool s "additionalProperties" = some (some sch, b) →
      classify fc x root fuel visited sch ≠ .outOfFuel)
    (ha : ∀ it, itemsOf s = some (.inl it) → classify fc x root fuel visited it ≠ .outOfFuel)
    (hr : Doc.refStr s ≠ "" → (fc.schemaRefGuard && visited.contains (Doc.refStr s)) = false →
      ∀ target, resolve x root (Doc.refStr s) = some target →
        classify fc x root fuel (Doc.refStr s :: visited) target ≠ .outOfFuel) :
    classify fc x root (fuel + 1) visited s ≠ .outOfFuel := by
  rw [classify_succ]
  refine bind_ne_outOfFuel' _ _ (mapStep_ne hm) fun f1 h1 => ?_
  refine bind_ne_outOfFuel' _ _ (arrStep_ne ha) fun f2 h2 => ?_
  obtain ⟨m, rfl, _⟩ := mapStep_ok h1
  obtain ⟨a, rfl, _⟩ := arrStep_ok h2
  refine refStep_ne fun h => hr ?_
  have : (shallow x s).hasRef = true := h
  simpa [shallow, initFlags] using this

/-! ### the bound -/

/-- fuel that suffices at a node of depth `d` with `u` unvisited `$ref`s, when every node that a
    `$ref` can lead to has depth at most `D` -/
def bound (R visited : List String) (D d : Nat) : Nat := unvisited R visited * (D + 1) + d + 1

theorem terminates_aux (fc : Facts) (hg : fc.schemaRefGuard = true) (x : Ext) (root s0 : J) (fuel : Nat) :
    ∀ (visited : List String) (cur : J), (Sub cur s0 ∨ Sub cur root) →
      bound (allRefs s0 ++ allRefs root) visited (depth root) (depth cur) ≤ fuel →
      classify fc x root fuel visited cur ≠ .outOfFuel := by
  induction fuel with
  | zero => intro visited cur _ hb; simp [bound] at hb
  | succ fuel ih =>
    intro visited cur hsub hb
    unfold bound at hb
    apply classify_succ_ne
    · intro sch b hs
      obtain ⟨h1, h2⟩ := schemaOrBool_sub hs
      refine ih visited sch (hsub.imp h1.trans h1.trans) ?_
      unfold bound; omega
    · intro it hs
      obtain ⟨h1, h2⟩ := itemsOf_sub hs
      refine ih visited it (hsub.imp h1.trans h1.trans) ?_
      unfold bound; omega
    · intro hne hv target ht
      have htr := resolve_sub ht
      have hmem : Doc.refStr cur ∈ allRefs s0 ++ allRefs root := by
        have := refStr_mem_allRefs hne
        rcases hsub with h | h
        · exact List.mem_append_left _ (h.allRefs_subset this)
        · exact List.mem_append_right _ (h.allRefs_subset this)
      rw [hg, Bool.true_and] at hv
      have hlt := unvisited_push_lt hmem hv
      have hd := htr.depth_le
      have hpos := depth_pos cur
      refine ih _ target (.inr htr) ?_
      unfold bound
      generalize unvisited (allRefs s0 ++ allRefs root) (Doc.refStr cur :: visited) = u' at *
      generalize unvisited (allRefs s0 ++ allRefs root) visited = u at *
      have : (u' + 1) * (depth root + 1) ≤ u * (depth root + 1) := Nat.mul_le_mul_right _ hlt
      rw [Nat.add_mul] at this
      omega

/-- classification terminates under the guard, with an explicit bound -/
theorem terminates (fc : Facts) (hg : fc.schemaRefGuard = true) (x : Ext) (root : J) (visited : List String) (s : J)
    (fuel : Nat) (h : bound (allRefs s ++ allRefs root) visited (depth root) (depth s) ≤ fuel) :
    classify fc x root fuel visited s ≠ .outOfFuel :=
  terminates_aux fc hg x root s fuel visited s (.inl (.refl s)) h


end Proofs.Classify
