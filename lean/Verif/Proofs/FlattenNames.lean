import Verif.Proofs.FlattenPhases
import Verif.Proofs.Names
import Verif.Properties.C03

/-!
  C03 at the level of the phases that create definitions (`nameInlinedSchemas`, `namePointers`):
  no existing definition disappears or is overwritten, and every name that is added differs, up to
  letter case, from every name present when it is added.
-/

namespace Proofs.FlattenNames
open J Replace Flatten OutcomeM Proofs.FlattenBase

/-- the definition names of a document, in order -/
def defNames (d : J) : List String := Flatten.defNames d

/-- `l'` extends `l` by names each of which is fresh, up to `fold`, with respect to everything
    before it -/
inductive FreshExt (fold : String → String) : List String → List String → Prop
  | refl (l : List String) : FreshExt fold l l
  | snoc {l l' : List String} (n : String) : FreshExt fold l l' → (∀ k ∈ l', fold k ≠ fold n) →
      FreshExt fold l (l' ++ [n])

theorem FreshExt.trans {fold : String → String} {a b c : List String}
    (h1 : FreshExt fold a b) (h2 : FreshExt fold b c) : FreshExt fold a c := by
  induction h2 with
  | refl => exact h1
  | snoc n _ hf ih => exact FreshExt.snoc n ih hf

/-- nothing is lost: the old names are a prefix of the new ones -/
theorem FreshExt.prefix {fold : String → String} {a b : List String} (h : FreshExt fold a b) : a <+: b := by
  induction h with
  | refl => exact List.prefix_refl _
  | snoc n _ _ ih => exact ih.trans (List.prefix_append _ _)

/-- every added name is fresh with respect to all the original names -/
theorem FreshExt.added_fresh {fold : String → String} {a b : List String} (h : FreshExt fold a b) :
    ∀ n ∈ b.drop a.length, ∀ k ∈ a, fold k ≠ fold n := by
  induction h with
  | refl => intro n hn; simp at hn
  | @snoc l' n0 _ hf ih =>
    rename_i hext
    intro n hn k hk
    have hp := (FreshExt.prefix hext)
    have hlen : a.length ≤ l'.length := hp.length_le
    rw [List.drop_append_of_le_length hlen] at hn
    rcases List.mem_append.1 hn with h1 | h1
    · exact ih n h1 k hk
    · simp at h1; subst h1
      exact hf k (hp.subset hk)

/-! ### keys of objects under `setKv` and `setAt` -/

theorem setKv_keys_of_lookup (t : String) (c c' : J) (m : List (String × J)) (h : lookup t m = some c) :
    (setKv t c' m).map (·.1) = m.map (·.1) := by
  induction m with
  | nil => simp [lookup] at h
  | cons kv rest ih =>
    obtain ⟨k, v⟩ := kv
    simp only [setKv]
    split
    · rename_i hk; subst hk; rfl
    · rename_i hk
      simp only [lookup, hk, if_false] at h
      simp [ih h]

theorem setKv_keys_of_not_mem (t : String) (c' : J) (m : List (String × J)) (h : t ∉ m.map (·.1)) :
    (setKv t c' m).map (·.1) = m.map (·.1) ++ [t] := by
  induction m with
  | nil => rfl
  | cons kv rest ih =>
    obtain ⟨k, v⟩ := kv
    simp only [List.map_cons, List.mem_cons, not_or] at h
    simp only [setKv]
    split
    · rename_i hk; exact absurd hk.symm h.1
    · simp [ih h.2]

theorem lookup_isSome_of_mem (t : String) (m : List (String × J)) (h : t ∈ m.map (·.1)) :
    ∃ c, lookup t m = some c := by
  induction m with
  | nil => simp at h
  | cons kv rest ih =>
    obtain ⟨k, v⟩ := kv
    simp only [lookup]
    split
    · exact ⟨v, rfl⟩
    · rename_i hk
      simp only [List.map_cons, List.mem_cons] at h
      rcases h with h | h
      · exact absurd h.symm hk
      · exact ih h

/-- rewriting below a non-empty path keeps the key list of an object -/
theorem setAt_obj_keys (m : List (String × J)) (t : String) (ts : List String) (v c' : J)
    (h : setAt (.obj m) (t :: ts) v = some c') : ∃ m', c' = .obj m' ∧ m'.map (·.1) = m.map (·.1) := by
  simp only [setAt] at h
  cases hl : lookup t m with
  | none => simp [hl] at h
  | some c =>
    simp only [hl, Option.map_eq_some_iff] at h
    obtain ⟨c2, _, rfl⟩ := h
    exact ⟨_, rfl, setKv_keys_of_lookup t c c2 m hl⟩

theorem setAt_arr_isArr (xs : List J) (t : String) (ts : List String) (v d' : J)
    (h : setAt (.arr xs) (t :: ts) v = some d') : ∃ ys, d' = .arr ys := by
  simp only [setAt] at h
  cases hn : Spec.Pointer.natOfDigits t.toList with
  | none => simp [hn] at h
  | some i =>
    simp only [hn] at h
    cases hx : xs[i]? with
    | none => simp [hx] at h
    | some e =>
      simp only [hx, Option.map_eq_some_iff] at h
      obtain ⟨_, _, rfl⟩ := h
      exact ⟨_, rfl⟩

theorem getObj_eq_of_get? (d d' : J) (k : String) (h : d'.get? k = d.get? k) : d'.getObj k = d.getObj k := by
  simp [getObj, h]

/-- `setAt` along a path that a schema-kind walk from the document root accepts keeps the list of
    definition names -/
theorem setAt_defNames (d : J) (toks : List String) (n : J) (kind : Kind) (v d' : J)
    (hw : walk .swagger d toks = some (n, kind)) (hk : isSchemaKind kind = true)
    (h : setAt d toks v = some d') : defNames d' = defNames d := by
  cases toks with
  | nil => exact absurd rfl (walk_schemaKind_ne_nil d _ n kind hw hk)
  | cons t ts =>
    by_cases ht : t = "definitions"
    · subst ht
      cases ts with
      | nil =>
        -- the walk stops on the definitions map itself, which is not a schema position
        simp only [walk] at hw
        cases hs : Spec.Pointer.step d "definitions" with
        | none => simp [hs] at hw
        | some c =>
          simp [hs, walk, childKind] at hw
          obtain ⟨_, rfl⟩ := hw
          simp [isSchemaKind] at hk
      | cons t2 ts2 =>
        cases d with
        | obj kvs =>
          simp only [setAt] at h
          cases hl : lookup "definitions" kvs with
          | none => simp [hl] at h
          | some c =>
            simp only [hl, Option.map_eq_some_iff] at h
            obtain ⟨c', hc, rfl⟩ := h
            unfold defNames Flatten.defNames
            simp only [getObj, get?, lookup_setKv_self, hl]
            cases c with
            | obj m =>
              obtain ⟨m', rfl, hm⟩ := setAt_obj_keys m t2 ts2 v c' hc
              simpa using hm
            | arr xs =>
              obtain ⟨ys, rfl⟩ := setAt_arr_isArr xs _ _ v c' hc
              rfl
            | null => simp [setAt] at hc
            | bool b => simp [setAt] at hc
            | num z => simp [setAt] at hc
            | str s => simp [setAt] at hc
        | arr xs =>
          obtain ⟨ys, rfl⟩ := setAt_arr_isArr xs _ _ v d' h
          rfl
        | null => simp [setAt] at h
        | bool b => simp [setAt] at h
        | num z => simp [setAt] at h
        | str s => simp [setAt] at h
    · unfold defNames Flatten.defNames
      rw [getObj_eq_of_get? d d' "definitions" (setAt_get?_ne d t ts v d' h "definitions" (Ne.symm ht))]

theorem updateRef_defNames (d : J) (key ref : String) (d' : J)
    (h : updateRef d key ref = .ok d') : defNames d' = defNames d := by
  unfold updateRef at h
  simp only at h
  split at h
  · cases h
  · rename_i node kind hw
    split at h
    · split at h
      · rename_i d'' hs; cases h; exact setAt_defNames d _ node _ _ _ hw rfl hs
      · cases h
    all_goals first
      | (split at h
         · rename_i d'' hs; cases h; exact setAt_defNames d _ node _ _ _ hw rfl hs
         · cases h)
      | cases h

theorem rewriteSchemaToRef_defNames (d : J) (key ref : String) (d' : J)
    (h : rewriteSchemaToRef d key ref = .ok d') : defNames d' = defNames d := by
  unfold rewriteSchemaToRef at h
  simp only at h
  split at h
  · cases h
  · rename_i node kind hw
    split at h
    · cases h
    · split at h
      · rename_i hk
        split at h
        · rename_i d'' hs; cases h; exact setAt_defNames d _ node kind _ _ hw hk hs
        · cases h
      · cases h

theorem updateRefWithSchema_defNames (d : J) (key : String) (sch d' : J)
    (h : updateRefWithSchema d key sch = .ok d') : defNames d' = defNames d := by
  unfold updateRefWithSchema at h
  simp only at h
  split at h
  · cases h
  · rename_i node kind hw
    split at h
    · rename_i hk
      split at h
      · rename_i d'' hs; cases h; exact setAt_defNames d _ node kind _ _ hw hk hs
      · cases h
    · cases h

/-- `schutils.Save` under a name that is not there yet appends it -/
theorem save_defNames (d : J) (name : String) (sch : J) (hn : name ∉ defNames d) :
    defNames (save d name sch) = defNames d ++ [name] ∨ defNames (save d name sch) = defNames d := by
  cases d with
  | obj kvs =>
    left
    unfold defNames Flatten.defNames save
    simp only [J.set, getObj, get?, lookup_setKv_self]
    exact setKv_keys_of_not_mem name sch _ hn
  | _ => right; rfl

/-! ### the fold function the model hands to `uniqifyName` -/

def foldOf (x : Ext) : String → String := fun s => (x.fold s).getD ""

theorem uniqify_fresh (fc : Facts) (hf : C03.FactsOK fc) (x : Ext) (defs : List String) (name : String)
    (r : String × Bool) (h : uniqify fc x defs name = .ok r) : ∀ k ∈ defs, foldOf x k ≠ foldOf x r.1 := by
  unfold uniqify at h
  simp only at h
  split at h
  · cases h
  · have hk := C03.uniqify_fresh fc hf { fold := foldOf x } defs name _ r h
    intro k hkm he
    have : Names.knownFold { fold := foldOf x } defs r.1 = true := by
      simp only [Names.knownFold, List.any_eq_true]
      exact ⟨k, hkm, by simpa using he⟩
    rw [hk] at this
    cases this

/-! ### the phases -/

theorem nameWith_fresh (fc : Facts) (hf : C03.FactsOK fc) (x : Ext) (o : Opts) (st : St) (key : String) (schema : J)
    (parts : List String) (name : String) (st' : St)
    (h : nameWith fc x o st key schema parts name = .ok st') :
    FreshExt (foldOf x) (defNames st.doc) (defNames st'.doc) := by
  unfold nameWith at h
  obtain ⟨mangled, _, h⟩ := bind_eq_ok.1 h
  obtain ⟨⟨newName, isOAIGen⟩, hu, h⟩ := bind_eq_ok.1 h
  obtain ⟨ref, _, h⟩ := bind_eq_ok.1 h
  obtain ⟨d0, h1, h⟩ := bind_eq_ok.1 h
  obtain ⟨d2, h2, h⟩ := bind_eq_ok.1 h
  simp only [pure_eq_ok] at h
  subst h
  have e1 : defNames d0 = defNames st.doc := rewriteSchemaToRef_defNames _ _ _ _ h1
  have hfresh := uniqify_fresh fc hf x (Flatten.defNames st.doc) mangled (newName, isOAIGen) hu
  have hnot : newName ∉ defNames d0 := by
    rw [e1]; intro hm; exact hfresh newName hm rfl
  have e2 : defNames d2 = defNames (save d0 newName (schema.set "x-go-gen-location" (.str (genLocation parts)))) := by
    have := foldlM_inv (fun d => defNames d =
      defNames (save d0 newName (schema.set "x-go-gen-location" (.str (genLocation parts))))) _ ?_ _ _ d2 rfl h2
    · exact this
    intro d kv d' hd hstep
    obtain ⟨r, _, hstep⟩ := bind_eq_ok.1 hstep
    split at hstep
    · simp only [pure_eq_ok] at hstep; exact hstep ▸ hd
    · rw [updateRef_defNames _ _ _ _ hstep]; exact hd
  show FreshExt (foldOf x) (defNames st.doc) (defNames d2)
  rw [e2]
  rcases save_defNames d0 newName (schema.set "x-go-gen-location" (.str (genLocation parts))) hnot with hs | hs
  · rw [hs, e1]
    exact FreshExt.snoc newName (FreshExt.refl _) hfresh
  · rw [hs, e1]; exact FreshExt.refl _

theorem nameSchema_fresh (fc : Facts) (hf : C03.FactsOK fc) (x : Ext) (o : Opts) (ops : List (String × OpRef))
    (st : St) (key : String) (schema : J) (fl : Classify.Flags) (st' : St)
    (h : nameSchema fc x o ops st key schema fl = .ok st') :
    FreshExt (foldOf x) (defNames st.doc) (defNames st'.doc) := by
  unfold nameSchema at h
  obtain ⟨names, _, h⟩ := bind_eq_ok.1 h
  refine foldlM_inv (fun s : St => FreshExt (foldOf x) (defNames st.doc) (defNames s.doc)) _ ?_ _ st st'
    (FreshExt.refl _) h
  intro s name s' hs hstep
  split at hstep
  · simp only [pure_eq_ok] at hstep; exact hstep ▸ hs
  · exact hs.trans (nameWith_fresh fc hf x o _ _ _ _ _ _ hstep)

/-- C03, naming phase: `nameInlinedSchemas` only appends definitions, each under a name that differs up
    to letter case from every definition present when it is created -/
theorem nameInlinedSchemas_fresh (fc : Facts) (hf : C03.FactsOK fc) (x : Ext) (o : Opts) (s s' : St)
    (h : nameInlinedSchemas fc x o s = .ok s') :
    FreshExt (foldOf x) (defNames s.doc) (defNames s'.doc) := by
  unfold nameInlinedSchemas at h
  obtain ⟨ops, _, h⟩ := bind_eq_ok.1 h
  obtain ⟨s1, h1, h⟩ := bind_eq_ok.1 h
  simp only [pure_eq_ok] at h
  subst h
  show FreshExt (foldOf x) (defNames s.doc) (defNames s1.doc)
  refine foldlM_inv (fun t : St => FreshExt (foldOf x) (defNames s.doc) (defNames t.doc)) _ ?_ _ s s1
    (FreshExt.refl _) h1
  intro st key st' hs hstep
  split at hstep
  · simp only [pure_eq_ok] at hstep; exact hstep ▸ hs
  · dsimp only at hstep
    split at hstep
    · simp only [pure_eq_ok] at hstep; exact hstep ▸ hs
    · obtain ⟨fl, _, hstep⟩ := bind_eq_ok.1 hstep
      split at hstep
      · exact hs.trans (nameSchema_fresh fc hf x o _ _ _ _ _ _ hstep)
      · simp only [pure_eq_ok] at hstep; exact hstep ▸ hs

theorem flattenAnonPointer_fresh (fc : Facts) (hf : C03.FactsOK fc) (x : Ext) (o : Opts) (ops : List (String × OpRef))
    (st : St) (plans : List (String × PtrPlan)) (key : String) (v : PtrPlan) (r : St × List (String × PtrPlan))
    (h : flattenAnonPointer fc x o ops st plans key v = .ok r) :
    FreshExt (foldOf x) (defNames st.doc) (defNames r.1.doc) := by
  unfold flattenAnonPointer at h
  obtain ⟨schema, _, h⟩ := bind_eq_ok.1 h
  obtain ⟨fl, _, h⟩ := bind_eq_ok.1 h
  obtain ⟨callers, _, h⟩ := bind_eq_ok.1 h
  split at h
  · simp only [pure_eq_ok] at h; subst h; exact FreshExt.refl _
  · dsimp only at h
    split at h
    · obtain ⟨st1, h1, h⟩ := bind_eq_ok.1 h
      simp only [pure_eq_ok] at h; subst h
      exact nameSchema_fresh fc hf x o _ _ _ _ _ _ h1
    · obtain ⟨d, h1, h⟩ := bind_eq_ok.1 h
      simp only [pure_eq_ok] at h; subst h
      show FreshExt (foldOf x) (defNames st.doc) (defNames d)
      rw [updateRefWithSchema_defNames _ _ _ _ h1]; exact FreshExt.refl _

theorem namePointersPass_fresh (fc : Facts) (hf : C03.FactsOK fc) (x : Ext) (o : Opts) (s : St) (r : St × Bool)
    (h : namePointersPass fc x o s = .ok r) :
    FreshExt (foldOf x) (defNames s.doc) (defNames r.1.doc) := by
  unfold namePointersPass at h
  obtain ⟨plans, _, h⟩ := bind_eq_ok.1 h
  obtain ⟨ops, _, h⟩ := bind_eq_ok.1 h
  obtain ⟨⟨⟨s1, pl⟩, rp⟩, h1, h⟩ := bind_eq_ok.1 h
  simp only [pure_eq_ok] at h
  subst h
  show FreshExt (foldOf x) (defNames s.doc) (defNames s1.doc)
  have := foldlM_inv (fun a : (St × List (String × PtrPlan)) × Bool =>
      FreshExt (foldOf x) (defNames s.doc) (defNames a.1.1.doc))
    _ ?_ _ ((s, plans), false) ((s1, pl), rp) (FreshExt.refl _) h1
  · exact this
  intro acc key acc' hs hstep
  split at hstep
  · simp only [pure_eq_ok] at hstep; exact hstep ▸ hs
  · obtain ⟨r, _, hstep⟩ := bind_eq_ok.1 hstep
    dsimp only at hstep
    split at hstep
    · obtain ⟨d, hd, hstep⟩ := bind_eq_ok.1 hstep
      simp only [pure_eq_ok] at hstep; subst hstep
      show FreshExt (foldOf x) (defNames s.doc) (defNames d)
      rw [updateRef_defNames _ _ _ _ hd]; exact hs
    · obtain ⟨r', hr', hstep⟩ := bind_eq_ok.1 hstep
      simp only [pure_eq_ok] at hstep; subst hstep
      exact hs.trans (flattenAnonPointer_fresh fc hf x o _ _ _ _ _ _ hr')

theorem namePointersLoop_fresh (fc : Facts) (hf : C03.FactsOK fc) (x : Ext) (o : Opts) : ∀ (fuel : Nat) (s s' : St),
    namePointersLoop fc x o fuel s = .ok s' → FreshExt (foldOf x) (defNames s.doc) (defNames s'.doc) := by
  intro fuel
  induction fuel with
  | zero => intro s s' h; simp [namePointersLoop] at h
  | succ n ih =>
    intro s s' h
    unfold namePointersLoop at h
    obtain ⟨⟨s1, rp⟩, h1, h⟩ := bind_eq_ok.1 h
    have hp1 := namePointersPass_fresh fc hf x o s _ h1
    dsimp only at h
    split at h
    · exact hp1.trans (ih _ _ h)
    · simp only [pure_eq_ok] at h; exact h ▸ hp1

/-- C03, pointer phase: `namePointers` too only appends definitions under fresh names -/
theorem namePointers_fresh (fc : Facts) (hf : C03.FactsOK fc) (x : Ext) (o : Opts) (s s' : St)
    (h : namePointers fc x o s = .ok s') :
    FreshExt (foldOf x) (defNames s.doc) (defNames s'.doc) :=
  namePointersLoop_fresh fc hf x o _ s s' h

end Proofs.FlattenNames
