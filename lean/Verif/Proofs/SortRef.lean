import Verif.Model.SortRef
import Verif.Proofs.ListLemmas

/-!
  Lemmas on the model of `sortref` (Verif/Model/SortRef.lean): `keyLe` and `topLe` are total,
  transitive and antisymmetric, so sorting with them forgets the order of the input; and the groups of
  `DepthFirst` partition the keys that have a group.
-/

namespace Proofs.SortRef
open _root_.SortRef

/-! ## sorting with a total order forgets the input order -/

theorem mergeSort_eq_of_perm {α} (le : α → α → Bool)
    (htrans : ∀ a b c, le a b = true → le b c = true → le a c = true)
    (htotal : ∀ a b, (le a b || le b a) = true)
    (hanti : ∀ a b, le a b = true → le b a = true → a = b)
    {l l' : List α} (hp : l.Perm l') : l.mergeSort le = l'.mergeSort le := by
  apply List.Perm.eq_of_pairwise (le := fun a b => le a b = true)
  · intro a b _ _ h1 h2; exact hanti a b h1 h2
  · exact List.pairwise_mergeSort htrans htotal l
  · exact List.pairwise_mergeSort htrans htotal l'
  · exact (List.mergeSort_perm l le).trans (hp.trans (List.mergeSort_perm l' le).symm)

/-- the shape shared by `keyLe` and `topLe`: compare a numeric rank first, then the strings -/
theorem rankLe_trans (lt : Nat → Nat → Prop) (hlt : ∀ a b c, lt a b → lt b c → lt a c)
    (m : String → Nat) (a b c : String)
    (h1 : lt (m a) (m b) ∨ (m a = m b ∧ a ≤ b)) (h2 : lt (m b) (m c) ∨ (m b = m c ∧ b ≤ c)) :
    lt (m a) (m c) ∨ (m a = m c ∧ a ≤ c) := by
  rcases h1 with h1 | ⟨e1, h1⟩ <;> rcases h2 with h2 | ⟨e2, h2⟩
  · exact .inl (hlt _ _ _ h1 h2)
  · exact .inl (e2 ▸ h1)
  · exact .inl (e1 ▸ h2)
  · exact .inr ⟨e1.trans e2, String.le_trans h1 h2⟩

theorem keyLe_iff (a b : String) :
    keyLe a b = true ↔
      (keyParts a).length > (keyParts b).length ∨ ((keyParts a).length = (keyParts b).length ∧ a ≤ b) := by
  simp [keyLe]

theorem topLe_iff (a b : String) :
    topLe a b = true ↔ slashCount a < slashCount b ∨ (slashCount a = slashCount b ∧ a ≤ b) := by
  simp [topLe]

theorem keyLe_trans (a b c : String) (h1 : keyLe a b = true) (h2 : keyLe b c = true) : keyLe a c = true := by
  rw [keyLe_iff] at *
  exact rankLe_trans (· > ·) (fun _ _ _ h1 h2 => Nat.lt_trans h2 h1)
    (fun s => (keyParts s).length) a b c h1 h2

theorem keyLe_total (a b : String) : (keyLe a b || keyLe b a) = true := by
  rw [Bool.or_eq_true, keyLe_iff, keyLe_iff]
  rcases Nat.lt_trichotomy (keyParts a).length (keyParts b).length with h | h | h
  · exact .inr (.inl h)
  · rcases String.le_total a b with h' | h'
    · exact .inl (.inr ⟨h, h'⟩)
    · exact .inr (.inr ⟨h.symm, h'⟩)
  · exact .inl (.inl h)

theorem keyLe_antisymm (a b : String) (h1 : keyLe a b = true) (h2 : keyLe b a = true) : a = b := by
  rw [keyLe_iff] at *
  rcases h1 with h1 | ⟨_, h1⟩ <;> rcases h2 with h2 | ⟨_, h2⟩ <;> try omega
  exact String.le_antisymm h1 h2

theorem topLe_trans (a b c : String) (h1 : topLe a b = true) (h2 : topLe b c = true) : topLe a c = true := by
  rw [topLe_iff] at *
  exact rankLe_trans (· < ·) (fun _ _ _ h1 h2 => Nat.lt_trans h1 h2)
    slashCount a b c h1 h2

theorem topLe_total (a b : String) : (topLe a b || topLe b a) = true := by
  rw [Bool.or_eq_true, topLe_iff, topLe_iff]
  rcases Nat.lt_trichotomy (slashCount a) (slashCount b) with h | h | h
  · exact .inl (.inl h)
  · rcases String.le_total a b with h' | h'
    · exact .inl (.inr ⟨h, h'⟩)
    · exact .inr (.inr ⟨h.symm, h'⟩)
  · exact .inr (.inl h)

theorem topLe_antisymm (a b : String) (h1 : topLe a b = true) (h2 : topLe b a = true) : a = b := by
  rw [topLe_iff] at *
  rcases h1 with h1 | ⟨_, h1⟩ <;> rcases h2 with h2 | ⟨_, h2⟩ <;> try omega
  exact String.le_antisymm h1 h2

theorem mergeSort_keyLe_perm {l l' : List String} (hp : l.Perm l') : l.mergeSort keyLe = l'.mergeSort keyLe :=
  mergeSort_eq_of_perm keyLe keyLe_trans keyLe_total keyLe_antisymm hp

theorem mergeSort_topLe_perm {l l' : List String} (hp : l.Perm l') : l.mergeSort topLe = l'.mergeSort topLe :=
  mergeSort_eq_of_perm topLe topLe_trans topLe_total topLe_antisymm hp

theorem depthFirst_eq_of_perm {ks ks' : List String} (hp : ks.Perm ks') : depthFirst ks = depthFirst ks' := by
  unfold depthFirst
  apply List.flatMap_congr'
  intro g _
  exact mergeSort_keyLe_perm (hp.filter _)

/-! ## the groups partition the grouped keys -/

theorem flatMap_perm_congr {α β} (l : List α) (f g : α → List β) (h : ∀ a ∈ l, (f a).Perm (g a)) :
    (l.flatMap f).Perm (l.flatMap g) := by
  induction l with
  | nil => exact .refl _
  | cons a l ih =>
    simp only [List.flatMap_cons]
    exact (h a (by simp)).append (ih fun b hb => h b (by simp [hb]))

/-- two disjoint filters, one after the other, are the filter of the disjunction up to order -/
theorem filter_append_perm_of_disjoint {α} (p q : α → Bool) (l : List α)
    (hd : ∀ a ∈ l, p a = true → q a = true → False) :
    (l.filter p ++ l.filter q).Perm (l.filter fun a => p a || q a) := by
  induction l with
  | nil => exact .refl _
  | cons a l ih =>
    have ih := ih fun b hb => hd b (by simp [hb])
    have ha := hd a (by simp)
    simp only [List.filter_cons]
    cases hp : p a <;> cases hq : q a
    · simpa using ih
    · simpa using List.perm_middle.trans (ih.cons a)
    · simpa using ih
    · exact (ha hp hq).elim

/-- for distinct labels, the label classes taken in any fixed order are the elements with a listed label -/
theorem flatMap_filter_label_perm {α} (lab : α → String) (l : List α) (gs : List String) (hn : gs.Nodup) :
    (gs.flatMap fun g => l.filter fun k => lab k = g).Perm (l.filter fun k => gs.contains (lab k)) := by
  induction gs with
  | nil => simp
  | cons g gs ih =>
    rw [List.nodup_cons] at hn
    simp only [List.flatMap_cons, List.contains_cons]
    refine ((ih hn.2).append_left _).trans ?_
    have := filter_append_perm_of_disjoint (fun k => decide (lab k = g)) (fun k => gs.contains (lab k)) l
      (by
        intro a _ h1 h2
        simp only [decide_eq_true_eq] at h1
        rw [h1] at h2
        exact hn.1 (List.contains_iff_mem.1 h2))
    refine this.trans ?_
    apply List.Perm.of_eq
    apply List.filter_congr
    intro a _
    by_cases h : lab a = g <;> simp [h]

theorem depthGroupOrder_nodup : depthGroupOrder.Nodup := by decide

theorem depthFirst_perm_filter (ks : List String) :
    (depthFirst ks).Perm (ks.filter fun k => depthGroupOrder.contains (groupOf (keyParts k))) := by
  unfold depthFirst
  refine (flatMap_perm_congr _ _ (fun g => ks.filter fun k => groupOf (keyParts k) = g) ?_).trans ?_
  · intro g _
    exact List.mergeSort_perm _ _
  · exact flatMap_filter_label_perm (fun k => groupOf (keyParts k)) ks depthGroupOrder depthGroupOrder_nodup

end Proofs.SortRef
