import Verif.Proofs.PointerOnce

/-!
  C12 `once` at the document level: `allSchemas d` as six blocks told apart by their leading tokens.
-/

namespace PointerProof
open _root_.J Spec.Index IndexProof

/-- which block a token path belongs to -/
def cls (p : List String) : Nat :=
  if p[0]? = some "paths" then
    if p[2]? = some "parameters" then 1
    else if p[3]? = some "parameters" then 2
    else if p[3]? = some "responses" then 3 else 0
  else if p[0]? = some "parameters" then 4
  else if p[0]? = some "responses" then 5
  else if p[0]? = some "definitions" then 6 else 0

def X1a (d : J) : List Pos := (Doc.pathItems d).flatMap fun kv => PB (["paths", kv.1], kv.2)
def X1b (d : J) : List Pos :=
  (Doc.pathItems d).flatMap fun kv => (opsOf kv.1 kv.2).flatMap fun o => PB o.2.2
def X2 (d : J) : List Pos :=
  (d.getObj "parameters").flatMap fun kv =>
    if kv.2.getStr "in" = "body" then Spec.Index.schemaOf (["parameters", kv.1], kv.2) else []
def X3 (d : J) : List Pos :=
  (Doc.pathItems d).flatMap fun kv => (opsOf kv.1 kv.2).flatMap fun o => RB o.2.2
def X4 (d : J) : List Pos :=
  (d.getObj "responses").flatMap fun kv => Spec.Index.schemaOf (["responses", kv.1], kv.2)
def X5 (d : J) : List Pos :=
  (d.getObj "definitions").flatMap fun kv => schemasAt ["definitions", kv.1] kv.2

theorem allSchemas_blocks (d : J) :
    allSchemas d = X1a d ++ X1b d ++ X2 d ++ X3 d ++ X4 d ++ X5 d := by
  have e1 : ((listedParams d).filter fun p => p.2.getStr "in" = "body").flatMap Spec.Index.schemaOf =
      X1a d ++ X1b d := by
    unfold listedParams X1a X1b
    rw [List.filter_append, List.flatMap_append, List.filter_flatMap, List.flatMap_assoc,
      List.filter_flatMap, List.flatMap_assoc, operations_eq, List.flatMap_assoc]
    rfl
  have e2 : ((sharedParams d).filter fun p => p.2.getStr "in" = "body").flatMap Spec.Index.schemaOf =
      X2 d := by
    unfold sharedParams X2
    rw [List.flatMap_filter', List.flatMap_map]
    simp
  have e3 : (opResponses d).flatMap Spec.Index.schemaOf = X3 d := by
    unfold X3
    rw [opResponses_eq, List.flatMap_assoc, operations_eq, List.flatMap_assoc]
    rfl
  have e4 : (sharedResponses d).flatMap Spec.Index.schemaOf = X4 d := by
    unfold sharedResponses X4
    rw [List.flatMap_map]
  unfold allSchemas
  rw [List.filter_append, List.flatMap_append, List.flatMap_append, e1, e2, e3, e4]
  simp only [X5, List.append_assoc]

theorem mem_opsOf {path : String} {pi : J} {o : String × String × Pos} (h : o ∈ opsOf path pi) :
    ∃ m op, m ∈ Doc.methods ∧ pi.get? m = some op ∧
      o = (Str.toUpperAscii m, path, (["paths", path, m], op)) := by
  obtain ⟨m, hm, ho⟩ := List.mem_filterMap.1 h
  cases hget : pi.get? m with
  | none => simp [hget] at ho
  | some op =>
    simp only [hget, Option.map_some, Option.some.injEq] at ho
    exact ⟨m, op, hm, hget, ho.symm⟩

theorem method_ne_parameters : ∀ m ∈ Doc.methods, m ≠ "parameters" := by decide

theorem cls_1 {k : String} {p : List String} (h : ["paths", k, "parameters"] <+: p) : cls p = 1 := by
  obtain ⟨t, rfl⟩ := h
  simp [cls]

theorem cls_2 {k m : String} (hm : m ∈ Doc.methods) {p : List String}
    (h : ["paths", k, m, "parameters"] <+: p) : cls p = 2 := by
  obtain ⟨t, rfl⟩ := h
  simp [cls, method_ne_parameters m hm]

theorem cls_3 {k m : String} (hm : m ∈ Doc.methods) {p : List String}
    (h : ["paths", k, m, "responses"] <+: p) : cls p = 3 := by
  obtain ⟨t, rfl⟩ := h
  simp [cls, method_ne_parameters m hm]

theorem cls_4 {k : String} {p : List String} (h : ["parameters", k] <+: p) : cls p = 4 := by
  obtain ⟨t, rfl⟩ := h
  simp [cls]

theorem cls_5 {k : String} {p : List String} (h : ["responses", k] <+: p) : cls p = 5 := by
  obtain ⟨t, rfl⟩ := h
  simp [cls]

theorem cls_6 {k : String} {p : List String} (h : ["definitions", k] <+: p) : cls p = 6 := by
  obtain ⟨t, rfl⟩ := h
  simp [cls]

section
variable (P : J → Prop)
  (hobj : ∀ kvs, P (.obj kvs) → (kvs.map (·.1)).Nodup ∧ ∀ kv ∈ kvs, P kv.2)
  (harr : ∀ xs, P (.arr xs) → ∀ x ∈ xs, P x)

include hobj in
theorem P_pathItems {d : J} (hd : P d) :
    ((Doc.pathItems d).map (·.1)).Nodup ∧ ∀ kv ∈ Doc.pathItems d, P kv.2 := by
  obtain ⟨hn, hp⟩ := P_getObj P hobj hd "paths"
  exact ⟨(List.filter_sublist.map _).nodup hn, fun kv hkv => hp kv (List.mem_filter.1 hkv).1⟩

/-! #### the six blocks: leading tokens -/

theorem cls_X1a (d : J) : ∀ p ∈ paths (X1a d), cls p = 1 := by
  intro p hp
  obtain ⟨q, hq, rfl⟩ := List.mem_map.1 hp
  obtain ⟨kv, _, hq⟩ := List.mem_flatMap.1 hq
  exact cls_1 (prefix_PB _ q hq)

theorem cls_X1b (d : J) : ∀ p ∈ paths (X1b d), cls p = 2 := by
  intro p hp
  obtain ⟨q, hq, rfl⟩ := List.mem_map.1 hp
  obtain ⟨kv, _, hq⟩ := List.mem_flatMap.1 hq
  obtain ⟨o, ho, hq⟩ := List.mem_flatMap.1 hq
  obtain ⟨m, op, hm, _, rfl⟩ := mem_opsOf ho
  exact cls_2 hm (prefix_PB _ q hq)

theorem cls_X2 (d : J) : ∀ p ∈ paths (X2 d), cls p = 4 := by
  intro p hp
  obtain ⟨q, hq, rfl⟩ := List.mem_map.1 hp
  obtain ⟨kv, _, hq⟩ := List.mem_flatMap.1 hq
  split at hq
  · exact cls_4 (prefix_schemaOf _ q hq)
  · simp at hq

theorem cls_X3 (d : J) : ∀ p ∈ paths (X3 d), cls p = 3 := by
  intro p hp
  obtain ⟨q, hq, rfl⟩ := List.mem_map.1 hp
  obtain ⟨kv, _, hq⟩ := List.mem_flatMap.1 hq
  obtain ⟨o, ho, hq⟩ := List.mem_flatMap.1 hq
  obtain ⟨m, op, hm, _, rfl⟩ := mem_opsOf ho
  exact cls_3 hm (prefix_RB _ q hq)

theorem cls_X4 (d : J) : ∀ p ∈ paths (X4 d), cls p = 5 := by
  intro p hp
  obtain ⟨q, hq, rfl⟩ := List.mem_map.1 hp
  obtain ⟨kv, _, hq⟩ := List.mem_flatMap.1 hq
  exact cls_5 (prefix_schemaOf _ q hq)

theorem cls_X5 (d : J) : ∀ p ∈ paths (X5 d), cls p = 6 := by
  intro p hp
  obtain ⟨q, hq, rfl⟩ := List.mem_map.1 hp
  obtain ⟨kv, _, hq⟩ := List.mem_flatMap.1 hq
  exact cls_6 (prefix_schemasAt _ _ q hq)

/-! #### the six blocks: no repetition inside a block -/

include hobj harr in
theorem nodup_X1a {d : J} (hd : P d) : (paths (X1a d)).Nodup := by
  obtain ⟨hn, hp⟩ := P_pathItems P hobj hd
  refine nodup_obj_blocks [] "paths" _ hn _ ?_ ?_
  · intro kv _ p hp
    exact (List.prefix_append _ _).trans (prefix_PB _ p hp)
  · intro kv hkv
    exact nodup_PB P hobj harr _ (hp kv hkv)

include hobj in
theorem nodup_ops {d : J} (hd : P d) (G : Pos → List Pos) (lit : String)
    (hpre : ∀ q, ∀ p ∈ G q, (q.1 ++ [lit]) <+: p.1)
    (hG : ∀ q, P q.2 → (paths (G q)).Nodup) :
    (paths ((Doc.pathItems d).flatMap fun kv => (opsOf kv.1 kv.2).flatMap fun o => G o.2.2)).Nodup := by
  obtain ⟨hn, hp⟩ := P_pathItems P hobj hd
  refine nodup_obj_blocks [] "paths" _ hn _ ?_ ?_
  · intro kv _ p hp
    obtain ⟨o, ho, hp⟩ := List.mem_flatMap.1 hp
    obtain ⟨m, op, _, _, rfl⟩ := mem_opsOf ho
    refine List.IsPrefix.trans ?_ (hpre _ p hp)
    exact ⟨[m, lit], by simp⟩
  · intro kv hkv
    refine nodup_method_blocks kv.1 kv.2 _ ?_ ?_
    · intro o _ p hp
      exact (List.prefix_append _ _).trans (hpre _ p hp)
    · intro o ho
      obtain ⟨m, op, _, hget, rfl⟩ := mem_opsOf ho
      exact hG _ (P_get? P hobj (hp kv hkv) hget)

include hobj harr in
theorem nodup_X1b {d : J} (hd : P d) : (paths (X1b d)).Nodup :=
  nodup_ops P hobj hd PB "parameters" prefix_PB (nodup_PB P hobj harr)

include hobj harr in
theorem nodup_X3 {d : J} (hd : P d) : (paths (X3 d)).Nodup :=
  nodup_ops P hobj hd RB "responses" prefix_RB (nodup_RB P hobj harr)

include hobj harr in
theorem nodup_X2 {d : J} (hd : P d) : (paths (X2 d)).Nodup := by
  obtain ⟨hn, hp⟩ := P_getObj P hobj hd "parameters"
  refine nodup_obj_blocks [] "parameters" _ hn _ ?_ ?_
  · intro kv _ p hp
    split at hp
    · exact prefix_schemaOf _ p hp
    · simp at hp
  · intro kv hkv
    split
    · exact nodup_schemaOf P hobj harr _ (hp kv hkv)
    · simp

include hobj harr in
theorem nodup_X4 {d : J} (hd : P d) : (paths (X4 d)).Nodup := by
  obtain ⟨hn, hp⟩ := P_getObj P hobj hd "responses"
  refine nodup_obj_blocks [] "responses" _ hn _ ?_ ?_
  · intro kv _ p hp
    exact prefix_schemaOf _ p hp
  · intro kv hkv
    exact nodup_schemaOf P hobj harr _ (hp kv hkv)

include hobj harr in
theorem nodup_X5 {d : J} (hd : P d) : (paths (X5 d)).Nodup := by
  obtain ⟨hn, hp⟩ := P_getObj P hobj hd "definitions"
  refine nodup_obj_blocks [] "definitions" _ hn _ ?_ ?_
  · intro kv _ p hp
    exact prefix_schemasAt _ _ p hp
  · intro kv hkv
    exact nodup_schemasAt P hobj harr _ _ (hp kv hkv)

include hobj harr in
/-- the token paths of the indexed schemas are pairwise distinct -/
theorem once {d : J} (hd : P d) : ((allSchemas d).map fun p => p.1).Nodup := by
  have h := nodup_flatMap_disc
    [(1, paths (X1a d)), (2, paths (X1b d)), (4, paths (X2 d)), (3, paths (X3 d)),
     (5, paths (X4 d)), (6, paths (X5 d))]
    (fun b => b.1) cls (fun b => b.2) (by simp)
    (by
      intro b hb p hp
      simp only [List.mem_cons, List.not_mem_nil, or_false] at hb
      rcases hb with rfl | rfl | rfl | rfl | rfl | rfl
      · exact cls_X1a d p hp
      · exact cls_X1b d p hp
      · exact cls_X2 d p hp
      · exact cls_X3 d p hp
      · exact cls_X4 d p hp
      · exact cls_X5 d p hp)
    (by
      intro b hb
      simp only [List.mem_cons, List.not_mem_nil, or_false] at hb
      rcases hb with rfl | rfl | rfl | rfl | rfl | rfl
      · exact nodup_X1a P hobj harr hd
      · exact nodup_X1b P hobj harr hd
      · exact nodup_X2 P hobj harr hd
      · exact nodup_X3 P hobj harr hd
      · exact nodup_X4 P hobj harr hd
      · exact nodup_X5 P hobj harr hd)
  rw [allSchemas_blocks]
  simpa [paths, List.flatMap_cons] using h

end

end PointerProof
