import Verif.Proofs.Pointer
import Verif.Proofs.IndexDoc

/-!
  C12 `once`: the token paths of the indexed schemas are pairwise distinct.
-/

namespace PointerProof
open J Spec.Index IndexProof

/-- the token paths of a list of positions -/
abbrev paths (l : List Pos) : List (List String) := l.map (·.1)

theorem paths_flatMap {α} (l : List α) (F : α → List Pos) :
    paths (l.flatMap F) = l.flatMap fun a => paths (F a) := List.map_flatMap

/-- blocks told apart by a discriminator are disjoint -/
theorem nodup_flatMap_disc {α β γ} (l : List α) (key : α → β) (disc : γ → β) (F : α → List γ)
    (hk : (l.map key).Nodup) (hdisc : ∀ a ∈ l, ∀ p ∈ F a, disc p = key a)
    (hF : ∀ a ∈ l, (F a).Nodup) : (l.flatMap F).Nodup := by
  induction l with
  | nil => simp
  | cons a l ih =>
    simp only [List.map_cons, List.nodup_cons] at hk
    rw [List.flatMap_cons, List.nodup_append]
    refine ⟨hF a (by simp), ih hk.2 (fun b hb => hdisc b (by simp [hb])) (fun b hb => hF b (by simp [hb])), ?_⟩
    intro p hp p' hp' e
    subst e
    obtain ⟨b, hb, hpb⟩ := List.mem_flatMap.1 hp'
    have h1 := hdisc a (by simp) p hp
    have h2 := hdisc b (by simp [hb]) p hpb
    exact hk.1 (List.mem_map.2 ⟨b, hb, by rw [← h2, h1]⟩)

theorem getElem?_of_prefix_snoc {toks p : List String} {k : String} (h : (toks ++ [k]) <+: p) :
    p[toks.length]? = some k := by
  obtain ⟨t, rfl⟩ := h
  simp

theorem kidOf_prefix (toks : List String) (k : String) (v : J) :
    ∀ p ∈ kidOf toks k v, (toks ++ [k]) <+: p.1 := by
  intro p hp
  rcases kidOf_cases toks k v with ⟨m, _, e⟩ | ⟨xs, _, e⟩ | e | e
  · rw [e, mapKids_flatMap, List.mem_flatMap] at hp
    obtain ⟨kv', _, hp⟩ := hp
    exact (List.prefix_append _ _).trans (prefix_schemasAt _ _ p hp)
  · rw [e, arrKids_flatMap, List.mem_flatMap] at hp
    obtain ⟨xn, _, hp⟩ := hp
    exact (List.prefix_append _ _).trans (prefix_schemasAt _ _ p hp)
  · rw [e] at hp
    exact prefix_schemasAt _ _ p hp
  · rw [e] at hp; simp at hp

theorem nodup_map_some {α β} (f : α → β) {l : List α} (h : (l.map f).Nodup) :
    (l.map fun a => some (f a)).Nodup := by
  have := h.map (f := some) (fun _ _ e => Option.some.inj e)
  rw [List.map_map] at this
  exact this

theorem nodup_zipIdx_keys {α : Type} (xs : List α) (i : Nat) :
    ((xs.zipIdx i).map fun xn => some (toString xn.2)).Nodup := by
  have h1 : ((xs.zipIdx i).map (·.2)).Nodup := by
    rw [List.zipIdx_map_snd]; exact List.nodup_range'
  have := (h1.map (f := fun n : Nat => some (toString n))
    (fun a b e => toString_inj (Option.some.inj e)))
  rw [List.map_map] at this
  exact this

section
variable (P : J → Prop)
  (hobj : ∀ kvs, P (.obj kvs) → (kvs.map (·.1)).Nodup ∧ ∀ kv ∈ kvs, P kv.2)
  (harr : ∀ xs, P (.arr xs) → ∀ x ∈ xs, P x)

include hobj harr in
theorem nodup_schemasAt : ∀ (j : J) (toks : List String), P j → (paths (schemasAt toks j)).Nodup := by
  intro j
  induction j using jStrongInduction with
  | h j ih =>
    intro toks hP
    cases j with
    | obj kvs =>
      obtain ⟨hn, hp⟩ := hobj kvs hP
      rw [schemasAt, paths, List.map_cons, kids_flatMap, List.nodup_cons]
      refine ⟨?_, ?_⟩
      · intro hmem
        obtain ⟨q, hq, e⟩ := List.mem_map.1 hmem
        obtain ⟨kv, _, hq⟩ := List.mem_flatMap.1 hq
        have := (kidOf_prefix toks kv.1 kv.2 q hq).length_le
        simp only at e
        rw [e] at this
        simp at this
        omega
      · show (paths _).Nodup
        rw [paths_flatMap]
        refine nodup_flatMap_disc kvs (fun kv => some kv.1) (fun p => p[toks.length]?) _ ?_ ?_ ?_
        · exact nodup_map_some (fun kv : String × J => kv.1) hn
        · intro kv _ p hp
          obtain ⟨q, hq, rfl⟩ := List.mem_map.1 hp
          exact getElem?_of_prefix_snoc (kidOf_prefix toks kv.1 kv.2 q hq)
        · intro kv hkv
          have hs := sizeOf_obj_mem hkv
          have hPc := hp kv hkv
          rcases kidOf_cases toks kv.1 kv.2 with ⟨m, hm, e⟩ | ⟨xs, hx, e⟩ | e | e
          · rw [e, mapKids_flatMap, paths_flatMap]
            rw [hm] at hs hPc
            obtain ⟨hn', hp'⟩ := hobj m hPc
            refine nodup_flatMap_disc m (fun kv' => some kv'.1)
              (fun p => p[(toks ++ [kv.1]).length]?) _ ?_ ?_ ?_
            · exact nodup_map_some (fun kv : String × J => kv.1) hn'
            · intro kv' _ p hp
              obtain ⟨q, hq, rfl⟩ := List.mem_map.1 hp
              exact getElem?_of_prefix_snoc (prefix_schemasAt _ _ q hq)
            · intro kv' hkv'
              exact ih kv'.2 (Nat.lt_trans (sizeOf_obj_mem hkv') hs) _ (hp' kv' hkv')
          · rw [e, arrKids_flatMap, paths_flatMap]
            rw [hx] at hs hPc
            refine nodup_flatMap_disc (xs.zipIdx 0) (fun xn => some (toString xn.2))
              (fun p => p[(toks ++ [kv.1]).length]?) _ (nodup_zipIdx_keys xs 0) ?_ ?_
            · intro xn _ p hp
              obtain ⟨q, hq, rfl⟩ := List.mem_map.1 hp
              exact getElem?_of_prefix_snoc (prefix_schemasAt _ _ q hq)
            · intro xn hxn
              have hmem : xn.1 ∈ xs := List.mem_of_getElem? (List.mem_zipIdx_iff_getElem?.1 hxn)
              exact ih xn.1 (Nat.lt_trans (sizeOf_arr_mem hmem) hs) _ (harr xs hPc _ hmem)
          · rw [e]
            exact ih kv.2 hs _ hPc
          · rw [e]; simp
    | _ => simp [schemasAt]

end

/-! ### blocks of holders -/

theorem getElem?_of_prefix_snoc2 {base p : List String} {lit k : String}
    (h : (base ++ [lit, k]) <+: p) : p[base.length + 1]? = some k := by
  have : (base ++ [lit]) ++ [k] <+: p := by simpa using h
  simpa using getElem?_of_prefix_snoc this

theorem nodup_obj_blocks (base : List String) (lit : String) (kvs : List (String × J))
    (hk : (kvs.map (·.1)).Nodup) (G : String × J → List Pos)
    (hpre : ∀ kv ∈ kvs, ∀ p ∈ G kv, (base ++ [lit, kv.1]) <+: p.1)
    (hG : ∀ kv ∈ kvs, (paths (G kv)).Nodup) : (paths (kvs.flatMap G)).Nodup := by
  rw [paths_flatMap]
  refine nodup_flatMap_disc kvs (fun kv => some kv.1) (fun p => p[base.length + 1]?) _
    (nodup_map_some (fun kv : String × J => kv.1) hk) ?_ hG
  intro kv hkv p hp
  obtain ⟨q, hq, rfl⟩ := List.mem_map.1 hp
  exact getElem?_of_prefix_snoc2 (hpre kv hkv q hq)

theorem nodup_arr_blocks (base : List String) (lit : String) (xs : List J) (G : Nat × J → List Pos)
    (hpre : ∀ ip ∈ Spec.Index.indexed xs, ∀ p ∈ G ip, (base ++ [lit, toString ip.1]) <+: p.1)
    (hG : ∀ ip ∈ Spec.Index.indexed xs, (paths (G ip)).Nodup) :
    (paths ((Spec.Index.indexed xs).flatMap G)).Nodup := by
  rw [paths_flatMap]
  refine nodup_flatMap_disc _ (fun ip => some (toString ip.1)) (fun p => p[base.length + 1]?) _ ?_ ?_ hG
  · have := nodup_zipIdx_keys xs 0
    unfold Spec.Index.indexed
    rw [List.map_map]
    exact this
  · intro ip hip p hp
    obtain ⟨q, hq, rfl⟩ := List.mem_map.1 hp
    exact getElem?_of_prefix_snoc2 (hpre ip hip q hq)

theorem nodup_method_blocks (path : String) (pi : J) (G : String × String × Pos → List Pos)
    (hpre : ∀ o ∈ opsOf path pi, ∀ p ∈ G o, o.2.2.1 <+: p.1)
    (hG : ∀ o ∈ opsOf path pi, (paths (G o)).Nodup) : (paths ((opsOf path pi).flatMap G)).Nodup := by
  unfold opsOf at *
  rw [List.flatMap_filterMap', paths_flatMap]
  refine nodup_flatMap_disc Doc.methods (fun m => some m) (fun p => p[2]?) _ (by decide) ?_ ?_
  · intro m hm p hp
    cases hget : pi.get? m with
    | none => simp [hget] at hp
    | some op =>
      simp only [hget, Option.map_some] at hp
      obtain ⟨q, hq, rfl⟩ := List.mem_map.1 hp
      have := hpre _ (List.mem_filterMap.2 ⟨m, hm, by simp [hget]⟩) q hq
      exact getElem?_of_prefix_snoc (toks := ["paths", path]) this
  · intro m hm
    cases hget : pi.get? m with
    | none => simp
    | some op =>
      simp only [Option.map_some]
      exact hG _ (List.mem_filterMap.2 ⟨m, hm, by simp [hget]⟩)

section
variable (P : J → Prop)
  (hobj : ∀ kvs, P (.obj kvs) → (kvs.map (·.1)).Nodup ∧ ∀ kv ∈ kvs, P kv.2)
  (harr : ∀ xs, P (.arr xs) → ∀ x ∈ xs, P x)

include hobj in
theorem P_get? {j : J} (h : P j) {k : String} {v : J} (hv : j.get? k = some v) : P v := by
  cases j with
  | obj kvs => exact (hobj kvs h).2 (k, v) (mem_of_lookup hv)
  | _ => simp [J.get?] at hv

include hobj in
theorem P_getObj {j : J} (h : P j) (k : String) :
    ((j.getObj k).map (·.1)).Nodup ∧ ∀ kv ∈ j.getObj k, P kv.2 := by
  unfold J.getObj
  split
  · rename_i kvs hget
    exact hobj kvs (P_get? P hobj h hget)
  · simp

include hobj harr in
theorem P_getArr {j : J} (h : P j) (k : String) : ∀ x ∈ j.getArr k, P x := by
  unfold J.getArr
  split
  · rename_i xs hget
    exact harr xs (P_get? P hobj h hget)
  · simp

theorem prefix_schemaOf (q : Pos) : ∀ p ∈ Spec.Index.schemaOf q, q.1 <+: p.1 := by
  intro p hp
  unfold Spec.Index.schemaOf at hp
  split at hp
  · exact (List.prefix_append _ _).trans (prefix_schemasAt _ _ p hp)
  · simp at hp

include hobj harr in
theorem nodup_schemaOf (q : Pos) (h : P q.2) : (paths (Spec.Index.schemaOf q)).Nodup := by
  unfold Spec.Index.schemaOf
  split
  · rename_i s hs
    exact nodup_schemasAt P hobj harr s _ (P_get? P hobj h hs)
  · simp

/-- the schemas of the body parameters of a holder -/
def PB (holder : Pos) : List Pos :=
  ((paramsOf holder).filter fun p => p.2.getStr "in" = "body").flatMap Spec.Index.schemaOf

theorem PB_eq (holder : Pos) :
    PB holder = (Spec.Index.indexed (holder.2.getArr "parameters")).flatMap fun ip =>
      if (ip.2.getStr "in" = "body") then
        Spec.Index.schemaOf (holder.1 ++ ["parameters", toString ip.1], ip.2) else [] := by
  unfold PB paramsOf
  rw [List.flatMap_filter', List.flatMap_map]
  simp

theorem prefix_PB (holder : Pos) : ∀ p ∈ PB holder, (holder.1 ++ ["parameters"]) <+: p.1 := by
  intro p hp
  rw [PB_eq] at hp
  obtain ⟨ip, _, hp⟩ := List.mem_flatMap.1 hp
  split at hp
  · have := prefix_schemaOf _ p hp
    refine List.IsPrefix.trans ?_ this
    exact ⟨[toString ip.1], by simp⟩
  · simp at hp

include hobj harr in
theorem nodup_PB (holder : Pos) (h : P holder.2) : (paths (PB holder)).Nodup := by
  rw [PB_eq]
  refine nodup_arr_blocks holder.1 "parameters" _ _ ?_ ?_
  · intro ip _ p hp
    split at hp
    · exact prefix_schemaOf _ p hp
    · simp at hp
  · intro ip hip
    split
    · refine nodup_schemaOf P hobj harr _ ?_
      obtain ⟨xn, hxn, rfl⟩ := List.mem_map.1 hip
      exact P_getArr P hobj harr h _ _ (List.mem_of_getElem? (List.mem_zipIdx_iff_getElem?.1 hxn))
    · simp

/-- the schemas of the responses of an operation -/
def RB (holder : Pos) : List Pos := (respOf holder).flatMap Spec.Index.schemaOf

theorem prefix_RB (holder : Pos) : ∀ p ∈ RB holder, (holder.1 ++ ["responses"]) <+: p.1 := by
  intro p hp
  obtain ⟨q, hq, hp⟩ := List.mem_flatMap.1 hp
  obtain ⟨kv, _, rfl⟩ := List.mem_map.1 hq
  refine List.IsPrefix.trans ?_ (prefix_schemaOf _ p hp)
  exact ⟨[kv.1], by simp⟩

include hobj harr in
theorem nodup_RB (holder : Pos) (h : P holder.2) : (paths (RB holder)).Nodup := by
  unfold RB respOf
  rw [List.flatMap_map]
  obtain ⟨hn, hp⟩ := P_getObj P hobj h "responses"
  refine nodup_obj_blocks holder.1 "responses" _ ?_ _ ?_ ?_
  · exact (List.filter_sublist.map _).nodup hn
  · intro kv _ p hp
    exact prefix_schemaOf _ p hp
  · intro kv hkv
    exact nodup_schemaOf P hobj harr _ (hp kv (List.mem_filter.1 hkv).1)

end

end PointerProof
