namespace List

theorem flatMap_congr' {α β} {f g : α → List β} {l : List α} (h : ∀ a ∈ l, f a = g a) :
    l.flatMap f = l.flatMap g := by
  induction l with
  | nil => rfl
  | cons a l ih =>
    simp only [flatMap_cons]
    rw [h a (by simp), ih (fun b hb => h b (by simp [hb]))]

theorem filterMap_congr' {α β} {f g : α → Option β} {l : List α} (h : ∀ a ∈ l, f a = g a) :
    l.filterMap f = l.filterMap g := by
  induction l with
  | nil => rfl
  | cons a l ih =>
    simp only [filterMap_cons]
    rw [h a (by simp), ih (fun b hb => h b (by simp [hb]))]

end List
