import Verif.Spec.Pointer
import Verif.Proofs.IndexSchema
import Verif.Proofs.JsonLemmas

/-!
  C12: the token path of every indexed schema resolves, through `Spec.Pointer.get`, to that schema,
  and the token paths are pairwise distinct.  Generic in the "distinct keys" predicate `P`
  (instantiated by `C12.NodupKeys`), of which only the two inversion properties are used.
-/

namespace PointerProof
open J Spec.Index IndexProof

/-! ### string fact: a decimal numeral parses back -/

-- STRING FACT NEEDED (proved here)
theorem natOfDigits_toString (i : Nat) : Spec.Pointer.natOfDigits (toString i).toList = some i := by
  have hl : (toString i).toList = Nat.toDigits 10 i := Str.toList_itoa i
  unfold Spec.Pointer.natOfDigits
  rw [hl]
  have hne : Nat.toDigits 10 i ≠ [] := Nat.toDigits_ne_nil
  have hall : (Nat.toDigits 10 i).all Doc.isDigit = true := by
    rw [List.all_eq_true]
    intro c hc
    have := Nat.isDigit_of_mem_toDigits (by decide) (by decide) hc
    simp only [Char.isDigit, Bool.and_eq_true, decide_eq_true_eq] at this
    simp only [Doc.isDigit, decide_eq_true_eq]
    exact ⟨Char.le_def.2 (by simpa using this.1), Char.le_def.2 (by simpa using this.2)⟩
  rw [if_neg (by simp [hne, hall])]
  have := @Nat.ofDigitChars_ten_toDigits i
  unfold Nat.ofDigitChars at this
  rw [this]

theorem toString_inj {a b : Nat} (h : toString a = toString b) : a = b := by
  have ha := natOfDigits_toString a
  rw [h, natOfDigits_toString] at ha
  exact (Option.some.inj ha).symm

/-! ### strong induction on JSON trees -/

theorem sizeOf_obj_mem {kvs : List (String × J)} {kv : String × J} (h : kv ∈ kvs) :
    sizeOf kv.2 < sizeOf (J.obj kvs) := by
  have := List.sizeOf_lt_of_mem h
  cases kv; simp at this ⊢; omega

theorem sizeOf_arr_mem {xs : List J} {x : J} (h : x ∈ xs) : sizeOf x < sizeOf (J.arr xs) := by
  have := List.sizeOf_lt_of_mem h
  simp; omega

theorem jStrongInduction {motive : J → Prop}
    (h : ∀ j, (∀ c, sizeOf c < sizeOf j → motive c) → motive j) : ∀ j, motive j := by
  intro j
  induction hn : sizeOf j using Nat.strong_induction_on generalizing j with
  | _ n ih =>
    apply h
    intro c hc
    exact ih (sizeOf c) (hn ▸ hc) c rfl

/-! ### the traversal as `flatMap`s -/

theorem kids_flatMap (toks : List String) (kvs : List (String × J)) :
    kids toks kvs = kvs.flatMap fun kv => kidOf toks kv.1 kv.2 := by
  induction kvs with
  | nil => simp [kids]
  | cons kv rest ih => obtain ⟨k, v⟩ := kv; rw [kids_cons, ih]; rfl

theorem mapKids_flatMap (toks : List String) (kvs : List (String × J)) :
    mapKids toks kvs = kvs.flatMap fun kv => schemasAt (toks ++ [kv.1]) kv.2 := by
  induction kvs with
  | nil => simp [mapKids]
  | cons kv rest ih => obtain ⟨k, v⟩ := kv; rw [mapKids, ih]; rfl

theorem arrKids_flatMap (toks : List String) (i : Nat) (xs : List J) :
    arrKids toks i xs = (xs.zipIdx i).flatMap fun xn => schemasAt (toks ++ [toString xn.2]) xn.1 := by
  induction xs generalizing i with
  | nil => simp [arrKids]
  | cons x rest ih => rw [arrKids, ih, List.zipIdx_cons]; rfl

/-- where the positions contributed by one field come from -/
theorem kidOf_cases (toks : List String) (k : String) (v : J) :
    (∃ m, v = .obj m ∧ kidOf toks k v = mapKids (toks ++ [k]) m) ∨
    (∃ xs, v = .arr xs ∧ kidOf toks k v = arrKids (toks ++ [k]) 0 xs) ∨
    kidOf toks k v = schemasAt (toks ++ [k]) v ∨ kidOf toks k v = [] := by
  unfold kidOf
  by_cases h1 : mapKeywords.contains k = true
  · rw [if_pos h1]
    cases v <;> simp
  · rw [if_neg h1]
    by_cases h2 : arrKeywords.contains k = true
    · rw [if_pos h2]
      cases v <;> simp
    · rw [if_neg h2]
      by_cases h3 : oneKeywords.contains k = true
      · rw [if_pos h3]; simp
      · rw [if_neg h3]
        by_cases h4 : k = "items"
        · subst h4
          rw [if_pos rfl]
          cases v <;> simp [schemasAt]
        · rw [if_neg h4]; simp

/-! ### invariants along the traversal -/

/-- a property of (token path, node) that is inherited by object members and array elements holds at
    every schema position below a position where it holds -/
theorem schemasAt_inv (R : List String → J → Prop)
    (hco : ∀ toks kvs kv, R toks (.obj kvs) → kv ∈ kvs → R (toks ++ [kv.1]) kv.2)
    (hca : ∀ toks xs (n : Nat) x, R toks (.arr xs) → xs[n]? = some x → R (toks ++ [toString n]) x) :
    ∀ (j : J) (toks : List String), R toks j → ∀ p ∈ schemasAt toks j, R p.1 p.2 := by
  intro j
  induction j using jStrongInduction with
  | h j ih =>
    intro toks hr p hp
    cases j with
    | obj kvs =>
      rw [schemasAt, List.mem_cons, kids_flatMap, List.mem_flatMap] at hp
      rcases hp with rfl | ⟨kv, hkv, hp⟩
      · exact hr
      · have hc := hco _ _ _ hr hkv
        have hs := sizeOf_obj_mem hkv
        rcases kidOf_cases toks kv.1 kv.2 with ⟨m, hm, e⟩ | ⟨xs, hx, e⟩ | e | e
        · rw [e, mapKids_flatMap, List.mem_flatMap] at hp
          obtain ⟨kv', hkv', hp⟩ := hp
          rw [hm] at hc hs
          exact ih kv'.2 (Nat.lt_trans (sizeOf_obj_mem hkv') hs) _ (hco _ _ _ hc hkv') p hp
        · rw [e, arrKids_flatMap, List.mem_flatMap] at hp
          obtain ⟨xn, hxn, hp⟩ := hp
          rw [hx] at hc hs
          have hget := List.mem_zipIdx_iff_getElem?.1 hxn
          exact ih xn.1 (Nat.lt_trans (sizeOf_arr_mem (List.mem_of_getElem? hget)) hs) _
            (hca _ _ _ _ hc hget) p hp
        · rw [e] at hp
          exact ih kv.2 hs _ hc p hp
        · rw [e] at hp; simp at hp
    | _ => simp [schemasAt] at hp

/-- every position below `toks` extends `toks` -/
theorem prefix_schemasAt (j : J) (toks : List String) : ∀ p ∈ schemasAt toks j, toks <+: p.1 :=
  schemasAt_inv (fun t _ => toks <+: t)
    (fun _ _ _ h _ => h.trans (List.prefix_append _ _))
    (fun _ _ _ _ h _ => h.trans (List.prefix_append _ _)) j toks (List.prefix_refl _)

/-! ### resolution -/

theorem get_append (d : J) (a b : List String) :
    Spec.Pointer.get d (a ++ b) = (Spec.Pointer.get d a).bind fun c => Spec.Pointer.get c b := by
  induction a generalizing d with
  | nil => simp [Spec.Pointer.get]
  | cons t ts ih =>
    simp only [List.cons_append, Spec.Pointer.get]
    cases Spec.Pointer.step d t with
    | none => simp
    | some c => simpa using ih c

theorem get_snoc {d : J} {toks : List String} {j : J} (k : String) (h : Spec.Pointer.get d toks = some j) :
    Spec.Pointer.get d (toks ++ [k]) = Spec.Pointer.step j k := by
  rw [get_append, h]
  simp only [Option.bind_some, Spec.Pointer.get]
  cases Spec.Pointer.step j k <;> simp

theorem lookup_of_mem {kvs : List (String × J)} (hn : (kvs.map (·.1)).Nodup) {kv : String × J}
    (h : kv ∈ kvs) : lookup kv.1 kvs = some kv.2 := by
  induction kvs with
  | nil => simp at h
  | cons a rest ih =>
    obtain ⟨k', v'⟩ := a
    simp only [List.map_cons, List.nodup_cons] at hn
    rw [J.lookup_cons]
    rcases List.mem_cons.1 h with rfl | h
    · simp
    · have : k' ≠ kv.1 := by
        intro e
        exact hn.1 (e ▸ List.mem_map.2 ⟨kv, h, rfl⟩)
      rw [if_neg this]
      exact ih hn.2 h

theorem mem_of_lookup {kvs : List (String × J)} {k : String} {v : J} (h : lookup k kvs = some v) :
    (k, v) ∈ kvs := by
  induction kvs with
  | nil => simp at h
  | cons a rest ih =>
    obtain ⟨k', v'⟩ := a
    rw [J.lookup_cons] at h
    split at h
    · rename_i hk; subst hk; cases h; simp
    · exact List.mem_cons_of_mem _ (ih h)

section
variable (P : J → Prop)
  (hobj : ∀ kvs, P (.obj kvs) → (kvs.map (·.1)).Nodup ∧ ∀ kv ∈ kvs, P kv.2)
  (harr : ∀ xs, P (.arr xs) → ∀ x ∈ xs, P x)

/-- the position is reached from the document along its token path, and its node has distinct keys -/
def Res (d : J) (q : Pos) : Prop := Spec.Pointer.get d q.1 = some q.2 ∧ P q.2

include hobj in
theorem res_obj_child {d : J} {toks : List String} {kvs : List (String × J)}
    (h : Res P d (toks, .obj kvs)) {kv : String × J} (hkv : kv ∈ kvs) :
    Res P d (toks ++ [kv.1], kv.2) := by
  obtain ⟨hn, hp⟩ := hobj kvs h.2
  refine ⟨?_, hp kv hkv⟩
  rw [get_snoc kv.1 h.1]
  exact lookup_of_mem hn hkv

include harr in
theorem res_arr_child {d : J} {toks : List String} {xs : List J}
    (h : Res P d (toks, .arr xs)) {n : Nat} {x : J} (hx : xs[n]? = some x) :
    Res P d (toks ++ [toString n], x) := by
  refine ⟨?_, harr xs h.2 x (List.mem_of_getElem? hx)⟩
  rw [get_snoc _ h.1]
  simp only [Spec.Pointer.step, natOfDigits_toString, Option.bind_some]
  exact hx

include hobj harr in
theorem res_schemasAt (d : J) : ∀ (j : J) (toks : List String), Res P d (toks, j) →
    ∀ p ∈ schemasAt toks j, Res P d p :=
  schemasAt_inv (fun toks j => Res P d (toks, j))
    (fun _ _ _ h hkv => res_obj_child P hobj h hkv)
    (fun _ _ _ _ h hx => res_arr_child P harr h hx)

include hobj in
theorem res_get? {d : J} {toks : List String} {j : J} (h : Res P d (toks, j)) {k : String} {v : J}
    (hv : j.get? k = some v) : Res P d (toks ++ [k], v) := by
  cases j with
  | obj kvs => exact res_obj_child P hobj h (kv := (k, v)) (mem_of_lookup hv)
  | _ => simp [J.get?] at hv

include hobj in
theorem res_getObj {d : J} {toks : List String} {j : J} (h : Res P d (toks, j)) {k : String}
    {kv : String × J} (hkv : kv ∈ j.getObj k) : Res P d (toks ++ [k, kv.1], kv.2) := by
  unfold J.getObj at hkv
  split at hkv
  · rename_i kvs hget
    have := res_obj_child P hobj (res_get? P hobj h hget) hkv
    simpa using this
  · simp at hkv

include hobj harr in
theorem res_getArr {d : J} {toks : List String} {j : J} (h : Res P d (toks, j)) {k : String}
    {ip : Nat × J} (hip : ip ∈ Spec.Index.indexed (j.getArr k)) :
    Res P d (toks ++ [k, toString ip.1], ip.2) := by
  unfold Spec.Index.indexed at hip
  obtain ⟨xn, hxn, rfl⟩ := List.mem_map.1 hip
  unfold J.getArr at hxn
  split at hxn
  · rename_i xs hget
    have := res_arr_child P harr (res_get? P hobj h hget) (List.mem_zipIdx_iff_getElem?.1 hxn)
    simpa using this
  · simp at hxn

include hobj harr in
theorem res_paramsOf {d : J} {holder : Pos} (h : Res P d holder) : ∀ q ∈ paramsOf holder, Res P d q := by
  intro q hq
  obtain ⟨ip, hip, rfl⟩ := List.mem_map.1 hq
  exact res_getArr P hobj harr (toks := holder.1) (j := holder.2) h hip

include hobj harr in
theorem res_schemaOf {d : J} {q : Pos} (h : Res P d q) : ∀ p ∈ Spec.Index.schemaOf q, Res P d p := by
  intro p hp
  unfold Spec.Index.schemaOf at hp
  split at hp
  · rename_i s hs
    exact res_schemasAt P hobj harr d s _ (res_get? P hobj (toks := q.1) (j := q.2) h hs) p hp
  · simp at hp

theorem res_root {d : J} (hd : P d) : Res P d ([], d) := ⟨rfl, hd⟩

include hobj in
theorem res_pathItem {d : J} (hd : P d) : ∀ kv ∈ Doc.pathItems d, Res P d (["paths", kv.1], kv.2) := by
  intro kv hkv
  have := res_getObj P hobj (res_root P hd) (List.mem_filter.1 hkv).1
  simpa using this

include hobj in
theorem res_op {d : J} (hd : P d) : ∀ o ∈ operations d, Res P d o.2.2 := by
  intro o ho
  obtain ⟨kv, hkv, ho⟩ := List.mem_flatMap.1 ho
  obtain ⟨m, _, hm⟩ := List.mem_filterMap.1 ho
  cases hget : kv.2.get? m with
  | none => simp [hget] at hm
  | some op =>
    simp only [hget, Option.map_some, Option.some.injEq] at hm
    subst hm
    have := res_get? P hobj (res_pathItem P hobj hd kv hkv) hget
    simpa using this

include hobj harr in
theorem res_listedParams {d : J} (hd : P d) : ∀ q ∈ listedParams d, Res P d q := by
  intro q hq
  rcases List.mem_append.1 hq with hq | hq
  · obtain ⟨kv, hkv, hq⟩ := List.mem_flatMap.1 hq
    exact res_paramsOf P hobj harr (res_pathItem P hobj hd kv hkv) q hq
  · obtain ⟨o, ho, hq⟩ := List.mem_flatMap.1 hq
    exact res_paramsOf P hobj harr (res_op P hobj hd o ho) q hq

include hobj in
theorem res_sharedParams {d : J} (hd : P d) : ∀ q ∈ sharedParams d, Res P d q := by
  intro q hq
  obtain ⟨kv, hkv, rfl⟩ := List.mem_map.1 hq
  simpa using res_getObj P hobj (res_root P hd) hkv

include hobj in
theorem res_opResponses {d : J} (hd : P d) : ∀ q ∈ opResponses d, Res P d q := by
  intro q hq
  obtain ⟨o, ho, hq⟩ := List.mem_flatMap.1 hq
  obtain ⟨kv, hkv, rfl⟩ := List.mem_map.1 hq
  exact res_getObj P hobj (toks := o.2.2.1) (j := o.2.2.2) (res_op P hobj hd o ho) (List.mem_filter.1 hkv).1

include hobj in
theorem res_sharedResponses {d : J} (hd : P d) : ∀ q ∈ sharedResponses d, Res P d q := by
  intro q hq
  obtain ⟨kv, hkv, rfl⟩ := List.mem_map.1 hq
  simpa using res_getObj P hobj (res_root P hd) hkv

include hobj harr in
/-- every indexed schema is reached from the document along its token path -/
theorem res_allSchemas {d : J} (hd : P d) : ∀ p ∈ allSchemas d, Res P d p := by
  intro p hp
  unfold allSchemas at hp
  rcases List.mem_append.1 hp with hp | hp
  · rcases List.mem_append.1 hp with hp | hp
    · obtain ⟨q, hq, hp⟩ := List.mem_flatMap.1 hp
      have hq := (List.mem_filter.1 hq).1
      refine res_schemaOf P hobj harr ?_ p hp
      rcases List.mem_append.1 hq with hq | hq
      · exact res_listedParams P hobj harr hd q hq
      · exact res_sharedParams P hobj hd q hq
    · obtain ⟨q, hq, hp⟩ := List.mem_flatMap.1 hp
      refine res_schemaOf P hobj harr ?_ p hp
      rcases List.mem_append.1 hq with hq | hq
      · exact res_opResponses P hobj hd q hq
      · exact res_sharedResponses P hobj hd q hq
  · obtain ⟨kv, hkv, hp⟩ := List.mem_flatMap.1 hp
    have := res_getObj P hobj (res_root P hd) hkv
    exact res_schemasAt P hobj harr d kv.2 _ (by simpa using this) p hp

include hobj harr in
theorem resolves {d : J} (hd : P d) :
    ∀ p ∈ allSchemas d, Spec.Pointer.parse (ptr p.1) = p.1 ∧ Spec.Pointer.get d p.1 = some p.2 :=
  fun p hp => ⟨Str.parse_ptr p.1, (res_allSchemas P hobj harr hd p hp).1⟩

end

end PointerProof
