import Verif.Model.Flatten
import Verif.Proofs.UpdateComm
import Verif.Proofs.SortRef

/-!
  Order independence of the map-range loops of Flatten that the model transcribes (C07): for each loop,
  the association list the model folds over stands for *some* iteration order of the Go map; the
  theorems here say that every other order (any permutation) gives the same result.
-/

namespace Proofs.OrderIndep
open J Replace Proofs.UpdateComm

/-! ### `normalizeRef`, `importKnownRef`: loops of `UpdateRef` over a reference map -/

/-- the loop of `normalizeRef` over `opts.Spec.references.allRefs` -/
def normalizeFold (x : Flatten.Ext) (o : Flatten.Opts) (refs : List (String × String)) (d : J) : Outcome J :=
  (refs.filter fun kv => Str.hasPrefix (o.basePath ++ "#/definitions") kv.2).foldlM (fun d kv => do
    let r ← Flatten.ask "mkRef" x.mkRef (Str.join ["#/definitions", Str.base kv.2])
    Replace.updateRef d kv.1 r) d

/-- `Flatten.normalizeRef` is that loop over the analyzer's `allRefs`, followed by `reload()` -/
theorem normalizeRef_eq (fc : Facts) (x : Flatten.Ext) (o : Flatten.Opts) (s : Flatten.St) :
    Flatten.normalizeRef fc x o s = (do
      let d ← normalizeFold x o (Flatten.allRefs s.idx) s.doc
      pure (if ((Flatten.allRefs s.idx).filter fun kv => Str.hasPrefix (o.basePath ++ "#/definitions") kv.2).isEmpty
            then s else Flatten.reload fc { s with doc := d })) := rfl

theorem normalizeFold_perm (x : Flatten.Ext) (o : Flatten.Opts) {refs refs' : List (String × String)}
    (hp : refs.Perm refs') (hpw : refs.Pairwise KeysApart) (d d' : J)
    (h : normalizeFold x o refs d = .ok d') : normalizeFold x o refs' d = .ok d' := by
  unfold normalizeFold at h ⊢
  exact updateRefs_perm (fun kv => Flatten.ask "mkRef" x.mkRef (Str.join ["#/definitions", Str.base kv.2]))
    (hp.filter _) (hpw.filter _) d d' h

/-- the loop of `importKnownRef` (and the document part of `importNewRef`) over `entry.Keys` -/
def rerefFold (ref : String) (keys : List String) (d : J) : Outcome J :=
  keys.foldlM (fun d key => Replace.updateRef d key ref) d

theorem rerefFold_perm (ref : String) {keys keys' : List String} (hp : keys.Perm keys')
    (hpw : keys.Pairwise fun a b => PosDistinct (keyTokens a) (keyTokens b)) (d d' : J)
    (h : rerefFold ref keys d = .ok d') : rerefFold ref keys' d = .ok d' := by
  unfold rerefFold at h ⊢
  refine foldlM_perm_of_comm _ (fun a b => PosDistinct (keyTokens a) (keyTokens b)) PosDistinct.symm ?_ hp d d' hpw h
  intro s a b s' hR hab
  exact updateRef_comm s a b ref ref s' hR hab

/-! ### `importNewRef`: the `$ref`s of the imported schema are rebased, ranging over the partial analyzer's `allRefs` -/

/-- tokens of a key of `analyzeSchema("", sch, "/")`: `"#/"` is the schema itself -/
def schemaKeyTokens (key : String) : List String := if key = "#/" then [] else keyTokens key

theorem updateRefInSchema_ok_iff (sch : J) (key ref : String) (sch' : J) :
    Flatten.updateRefInSchema sch key ref = .ok sch' ↔ updR ref .schemaPtr sch (schemaKeyTokens key) = some sch' := by
  unfold Flatten.updateRefInSchema schemaKeyTokens
  by_cases hk : key = "#/"
  · simp [hk, updR, isSchemaKind]
  · simp only [hk, if_false]
    rw [updR_spec]
    cases hw : walk .schemaPtr sch (keyTokens key) with
    | none => simp
    | some nk =>
      obtain ⟨node, kind⟩ := nk
      simp only
      cases kind <;> simp [isSchemaKind] <;>
        (cases setAt sch (keyTokens key) (node.set "$ref" (.str ref)) <;> simp)

/-- one step of the rebasing loop of `importNewRef` -/
def rebaseStep (g : String × String → Outcome String) (s : J) (kv : String × String) : Outcome J := do
  let r ← g kv
  match Flatten.updateRefInSchema s kv.1 r with
  | .ok s' => pure s'
  | _ => Outcome.err "cannot rewrite ref"

theorem rebaseStep_ok (g : String × String → Outcome String) (s : J) (kv : String × String) (s' : J) :
    rebaseStep g s kv = .ok s' ↔ ∃ r, g kv = .ok r ∧ updR r .schemaPtr s (schemaKeyTokens kv.1) = some s' := by
  unfold rebaseStep
  constructor
  · intro h
    obtain ⟨r, hr, h2⟩ := OutcomeM.bind_eq_ok.1 h
    refine ⟨r, hr, ?_⟩
    rw [← updateRefInSchema_ok_iff]
    split at h2
    · rename_i s'' hu; simp only [OutcomeM.pure_eq_ok] at h2; rw [hu, h2]
    · cases h2
  · rintro ⟨r, hr, hu⟩
    rw [← updateRefInSchema_ok_iff] at hu
    exact OutcomeM.bind_eq_ok.2 ⟨r, hr, by rw [hu]; rfl⟩

/-- the keys of the imported schema designate different positions -/
def SchemaKeysApart (a b : String × String) : Prop := PosDistinct (schemaKeyTokens a.1) (schemaKeyTokens b.1)

theorem rebaseFold_perm (g : String × String → Outcome String) {l l' : List (String × String)} (hp : l.Perm l')
    (hpw : l.Pairwise SchemaKeysApart) (s s' : J)
    (h : l.foldlM (rebaseStep g) s = .ok s') : l'.foldlM (rebaseStep g) s = .ok s' := by
  refine foldlM_perm_of_comm _ SchemaKeysApart (fun h => PosDistinct.symm h) ?_ hp s s' hpw h
  intro d a b d' hR hab
  obtain ⟨d1, h1, h2⟩ := OutcomeM.bind_eq_ok.1 hab
  obtain ⟨ra, hra, hu1⟩ := (rebaseStep_ok g d a d1).1 h1
  obtain ⟨rb, hrb, hu2⟩ := (rebaseStep_ok g d1 b d').1 h2
  obtain ⟨d2, hu3, hu4⟩ := updR_comm ra rb _ _ _ _ _ _ hR hu1 hu2
  exact OutcomeM.bind_eq_ok.2 ⟨d2, (rebaseStep_ok g d b d2).2 ⟨rb, hrb, hu3⟩, (rebaseStep_ok g d2 a d').2 ⟨ra, hra, hu4⟩⟩

/-- the loop body of `importNewRef` in `Verif/Model/Flatten.lean` is `rebaseStep` -/
theorem importRebase_step_eq (x : Flatten.Ext) (entryRef : String) (s : J) (kv : String × String) :
    (do let rb ← Flatten.rebaseRef entryRef kv.2
        let r ← Flatten.ask "mkRef" x.mkRef rb
        match Flatten.updateRefInSchema s kv.1 r with
        | .ok s' => pure s'
        | _ => Outcome.err "cannot rewrite ref") =
      rebaseStep (fun kv => do let rb ← Flatten.rebaseRef entryRef kv.2; Flatten.ask "mkRef" x.mkRef rb) s kv := by
  unfold rebaseStep
  dsimp only
  cases h : Flatten.rebaseRef entryRef kv.2 with
  | ok rb =>
    show (Outcome.ok rb >>= _) = ((Outcome.ok rb >>= _) >>= _)
    cases h2 : Flatten.ask "mkRef" x.mkRef rb <;> rfl
  | err e => rfl
  | panic w => rfl
  | outOfFuel => rfl

/-! ### `uniqifyName`: an existential test over the definitions map -/

theorem knownFold_perm (x : Names.Ext) {defs defs' : List String} (hp : defs.Perm defs') (c : String) :
    Names.knownFold x defs c = Names.knownFold x defs' c := by
  unfold Names.knownFold
  rw [Bool.eq_iff_iff]
  simp only [List.any_eq_true]
  constructor
  · rintro ⟨k, hk, h⟩; exact ⟨k, hp.mem_iff.1 hk, h⟩
  · rintro ⟨k, hk, h⟩; exact ⟨k, hp.mem_iff.2 hk, h⟩

theorem knownExact_perm {defs defs' : List String} (hp : defs.Perm defs') (c : String) :
    Names.knownExact defs c = Names.knownExact defs' c := by
  unfold Names.knownExact
  rw [Bool.eq_iff_iff]
  simp only [List.contains_iff_mem]
  exact hp.mem_iff

theorem uniqifyName_perm (f : Facts) (x : Names.Ext) {defs defs' : List String} (hp : defs.Perm defs')
    (name : String) (fuel : Nat) :
    Names.uniqifyName f x defs name fuel = Names.uniqifyName f x defs' name fuel := by
  unfold Names.uniqifyName
  have he : defs.isEmpty = defs'.isEmpty := by
    cases defs with
    | nil => rw [hp.nil_eq]
    | cons a l =>
      cases defs' with
      | nil => exact absurd hp.symm.nil_eq (by simp)
      | cons b l' => rfl
  have hk : Names.knownFold x defs = Names.knownFold x defs' := funext (knownFold_perm x hp)
  have hx : Names.knownExact defs = Names.knownExact defs' := funext (knownExact_perm hp)
  simp only [he, hk, hx]

/-! ### `removeUnusedSinglePass`: set difference -/

/-- one removal pass for a given list of used names (`expected` in the Go code, built by ranging over
    `references.schemas`) -/
def singlePassWith (used : List String) (d : J) : J × Bool :=
  let defs := d.getObj "definitions"
  let keep := defs.filter fun kv => used.contains kv.1
  if keep.length = defs.length then (d, false) else (d.set "definitions" (.obj keep), true)

theorem singlePass_eq (f : Facts) (x : RemoveUnused.Ext) (d : J) :
    RemoveUnused.singlePass f x d = singlePassWith (RemoveUnused.usedNames f x d) d := rfl

/-- the pass depends on the used names as a set only: whatever the order in which the schema references were
    met (and however often a name was met) -/
theorem singlePassWith_congr {used used' : List String} (h : ∀ n, n ∈ used ↔ n ∈ used') (d : J) :
    singlePassWith used d = singlePassWith used' d := by
  have hc : (fun kv : String × J => used.contains kv.1) = fun kv => used'.contains kv.1 := by
    funext kv
    rw [Bool.eq_iff_iff]
    simp only [List.contains_iff_mem]
    exact h kv.1
  unfold singlePassWith
  simp only [hc]

theorem singlePassWith_perm {used used' : List String} (hp : used.Perm used') (d : J) :
    singlePassWith used d = singlePassWith used' d :=
  singlePassWith_congr (fun _ => hp.mem_iff) d

/-! ### `updateRefParents`: parents collected in map order, then sorted -/

/-- the step of the loop of `updateRefParents` -/
def parentStep (path : String) (ps : List String) (kv : String × String) : List String :=
  if path ≠ kv.2 then ps else if ps.contains kv.1 then ps else ps ++ [kv.1]

theorem updateRefParents_eq (refs : List (String × String)) (r : Flatten.NewRef) :
    Flatten.updateRefParents refs r =
      if !r.isOAIGen || r.resolved then r else { r with parents := refs.foldl (parentStep r.path) r.parents } := rfl

theorem contains_perm {ps ps' : List String} (hp : ps.Perm ps') (k : String) : ps.contains k = ps'.contains k := by
  rw [Bool.eq_iff_iff]
  simp only [List.contains_iff_mem]
  exact hp.mem_iff

theorem parentStep_congr (path : String) {ps ps' : List String} (hp : ps.Perm ps') (kv : String × String) :
    (parentStep path ps kv).Perm (parentStep path ps' kv) := by
  unfold parentStep
  rw [contains_perm hp]
  split
  · exact hp
  · split
    · exact hp
    · exact hp.append_right _

theorem parentStep_neg {path : String} {kv : String × String} (h : path ≠ kv.2) (ps : List String) :
    parentStep path ps kv = ps := by simp [parentStep, h]

theorem parentStep_pos {path : String} {kv : String × String} (h : path = kv.2) (ps : List String) :
    parentStep path ps kv = if ps.contains kv.1 then ps else ps ++ [kv.1] := by simp [parentStep, h]

theorem addNew_comm (ps : List String) (a b : String) :
    (if (if ps.contains a then ps else ps ++ [a]).contains b then (if ps.contains a then ps else ps ++ [a])
      else (if ps.contains a then ps else ps ++ [a]) ++ [b]).Perm
    (if (if ps.contains b then ps else ps ++ [b]).contains a then (if ps.contains b then ps else ps ++ [b])
      else (if ps.contains b then ps else ps ++ [b]) ++ [a]) := by
  by_cases hca : a ∈ ps <;> by_cases hcb : b ∈ ps
  · simp [hca, hcb]
  · simp [hca, hcb]
  · simp [hca, hcb]
  · by_cases hab : a = b
    · subst hab; simp [hca]
    · have hba : ¬ b = a := fun h => hab h.symm
      simp only [List.contains_iff_mem, hca, hcb, if_false, List.mem_append, List.mem_singleton, hab, hba, or_self]
      rw [List.append_assoc, List.append_assoc]
      exact List.Perm.append_left _ (List.Perm.swap _ _ _)

theorem parentStep_comm (path : String) (ps : List String) (a b : String × String) :
    (parentStep path (parentStep path ps a) b).Perm (parentStep path (parentStep path ps b) a) := by
  by_cases ha : path = a.2
  · by_cases hb : path = b.2
    · rw [parentStep_pos ha, parentStep_pos hb, parentStep_pos hb, parentStep_pos ha]
      exact addNew_comm ps a.1 b.1
    · rw [parentStep_neg hb, parentStep_neg hb]
  · rw [parentStep_neg ha, parentStep_neg ha]

/-- a fold whose step respects an equivalence of states and commutes up to it does not depend on the order
    of the list, up to that equivalence (here: `List.Perm`) -/
theorem foldl_perm_of_comm {α : Type} (f : List String → α → List String)
    (hcongr : ∀ {s s'} a, s.Perm s' → (f s a).Perm (f s' a))
    (hcomm : ∀ s a b, (f (f s a) b).Perm (f (f s b) a))
    {l l' : List α} (hp : l.Perm l') : ∀ {s s' : List String}, s.Perm s' → (l.foldl f s).Perm (l'.foldl f s') := by
  induction hp with
  | nil => intro s s' h; exact h
  | cons a _ ih => intro s s' h; exact ih (hcongr a h)
  | swap a b l =>
    intro s s' h
    simp only [List.foldl_cons]
    have h1 : (f (f s b) a).Perm (f (f s' a) b) := (hcomm s b a).trans (hcongr b (hcongr a h))
    have : ∀ {t t' : List String}, t.Perm t' → (l.foldl f t).Perm (l.foldl f t') := by
      intro t t' ht
      induction l generalizing t t' with
      | nil => exact ht
      | cons c l ihl => exact ihl (hcongr c ht)
    exact this h1
  | trans _ _ ih1 ih2 => intro s s' h; exact (ih1 h).trans (ih2 (List.Perm.refl _))

theorem parents_perm (path : String) {refs refs' : List (String × String)} (hp : refs.Perm refs') (init : List String) :
    (refs.foldl (parentStep path) init).Perm (refs'.foldl (parentStep path) init) :=
  foldl_perm_of_comm (parentStep path) (fun a h => parentStep_congr path h a) (parentStep_comm path) hp
    (List.Perm.refl _)

/-- whatever the order in which `updateRefParents` ranges over `allRefs`, `stripOAIGenForRef` sees the same
    sorted list of parents -/
theorem sortedParents_perm {refs refs' : List (String × String)} (hp : refs.Perm refs') (r : Flatten.NewRef) :
    SortRef.topmostFirst (Flatten.updateRefParents refs r).parents =
      SortRef.topmostFirst (Flatten.updateRefParents refs' r).parents := by
  rw [updateRefParents_eq, updateRefParents_eq]
  split
  · rfl
  · exact Proofs.SortRef.mergeSort_topLe_perm (parents_perm r.path hp r.parents)

end Proofs.OrderIndep
