import Verif.Proofs.MixinLoop

/-!
  C17: the number of reports equals the number of key collisions.
-/

namespace Proofs.Mixin
open J Spec.Mixin

/-! ## counting collisions -/

theorem collisionsFrom_snoc (seen : List String) (l : List (List String)) (ks : List String) :
    collisions.collisionsFrom seen (l ++ [ks]) =
      collisions.collisionsFrom seen l + (ks.filter (seen ++ l.flatten).contains).length := by
  induction l generalizing seen with
  | nil => simp [collisions.collisionsFrom]
  | cons a l ih =>
    simp only [List.cons_append, collisions.collisionsFrom, ih, List.flatten_cons, List.append_assoc]
    omega

theorem collisions_snoc (l : List (List String)) (ks : List String) (h : l ≠ []) :
    collisions (l ++ [ks]) = collisions l + (ks.filter l.flatten.contains).length := by
  cases l with
  | nil => exact absurd rfl h
  | cons a l => simp only [List.cons_append, collisions, collisionsFrom_snoc, List.flatten_cons]

/-- among the keys selected by `P`, `cur` and `seen` have the same members -/
def Cover (P : String → Bool) (cur seen : List String) : Prop :=
  ∀ k, P k = true → (k ∈ cur ↔ k ∈ seen)

theorem cover_filter {P : String → Bool} {cur seen : List String} (h : Cover P cur seen)
    (ks : List String) (hks : ∀ k ∈ ks, P k = true) : ks.filter cur.contains = ks.filter seen.contains := by
  apply List.filter_congr
  intro k hk
  rw [Bool.eq_iff_iff, List.contains_iff_mem, List.contains_iff_mem]
  exact h k (hks k hk)

/-- one iteration seen from one category of keys: `cur`/`cur'` are the keys present before/after,
    `gm` the keys the mixin offers and `n` the number of reports -/
structure CatStep (P : String → Bool) (cur cur' gm : List String) (n : Nat) : Prop where
  cnt : n = (gm.filter cur.contains).length
  cov : ∀ k, P k = true → (k ∈ cur' ↔ k ∈ cur ∨ k ∈ gm)

theorem catStep_inv {P : String → Bool} {cur cur' gm : List String} {n : Nat} {l : List (List String)}
    (hc : Cover P cur l.flatten) (hg : ∀ k ∈ gm, P k = true) (hs : CatStep P cur cur' gm n) (hl : l ≠ []) :
    Cover P cur' (l ++ [gm]).flatten ∧ collisions (l ++ [gm]) = collisions l + n := by
  constructor
  · intro k hk
    rw [hs.cov k hk, hc k hk]
    simp
  · rw [collisions_snoc _ _ hl, hs.cnt, cover_filter hc gm hg]

theorem contains_keys (pk : List (String × J)) :
    (pk.map (·.1)).contains = fun k => (lookup k pk).isSome := by
  funext k
  rw [Bool.eq_iff_iff, List.contains_iff_mem, lookup_isSome_iff]

theorem fw_catStep (P : String → Bool) (pk mk : List (String × J))
    (hnd : ((mk.filter fun kv => P kv.1).map (·.1)).Nodup) (cur' : List String)
    (hcur' : cur' = (fw P pk mk).1.map (·.1)) :
    CatStep P (pk.map (·.1)) cur' ((mk.filter fun kv => P kv.1).map (·.1)) (fw P pk mk).2.length where
  cnt := by rw [fw_warns P pk mk hnd, contains_keys]
  cov := by
    intro k _
    rw [hcur', ← lookup_isSome_iff, ← lookup_isSome_iff, fw_isSome]

theorem lvl_catStep {fields : List String} {po mo po' : Option J} {w : List Mixin.Warn}
    (l : Lvl fields po mo po' w) (ho : optObj po = true) (hnd : (extKeysOf mo).Nodup) :
    CatStep isExtKey (keysO po) (keysO po') (extKeysOf mo) w.length where
  cnt := l.warns ho hnd
  cov := l.ext ho

theorem extKeysOf_ext (o : Option J) : ∀ k ∈ extKeysOf o, isExtKey k = true := by
  intro k hk; exact ((mem_extKeysOf o k).1 hk).2

/-! ## the nine categories of keys -/

/-- keys a document offers in a keyed section -/
def sectKeys (s : String) (d : J) : List String := (sectionOf s d).map (·.1)

/-- collisions among keys: the five keyed sections and the four extension levels -/
def keyColl (ds : List J) : Nat :=
  collisions (ds.map (sectKeys "paths")) + collisions (ds.map (sectKeys "definitions"))
  + collisions (ds.map (sectKeys "parameters")) + collisions (ds.map (sectKeys "responses"))
  + collisions (ds.map (sectKeys "securityDefinitions"))
  + collisions (ds.map fun d => extKeysOf (some d))
  + collisions (ds.map fun d => extKeysOf (info d))
  + collisions (ds.map fun d => extKeysOf (sub "contact" (info d)))
  + collisions (ds.map fun d => extKeysOf (sub "license" (info d)))

theorem expectedWarnings_eq (ds : List J) :
    expectedWarnings ds = keyColl ds + listCollisions "tags" sameTag ds + listCollisions "security" (· == ·) ds := by
  have e : ∀ s, sectKeys s = fun d => (sectionOf s d).map (·.1) := fun s => rfl
  simp only [expectedWarnings, keyedSections, keyColl, e, List.map_cons, List.map_nil, List.sum_cons,
    List.sum_nil]
  omega

theorem listCollisions_add (k : String) (same : J → J → Bool) (ds : List J) (h : ds ≠ []) :
    listCollisions k same ds + (expectedList k same ds).length = (ds.flatMap (·.getArr k)).length := by
  cases ds with
  | nil => exact absurd rfl h
  | cons p ms =>
    simp only [listCollisions, expectedList, List.flatMap_cons, List.length_append]
    have h1 := appendNew_length same (p.getArr k) (ms.flatMap (·.getArr k))
    have h2 := unionNew_length_ge same (p.getArr k) (ms.flatMap (·.getArr k))
    omega

/-- the mixin's maps have distinct keys -/
structure DistinctKeys (m : J) : Prop where
  sect : ∀ s ∈ keyedSections, (sectKeys s m).Nodup
  ext0 : (extKeysOf (some m)).Nodup
  ext1 : (extKeysOf (info m)).Nodup
  ext2 : (extKeysOf (sub "contact" (info m))).Nodup
  ext3 : (extKeysOf (sub "license" (info m))).Nodup

/-- `info`, `info.contact`, `info.license` are objects when present -/
structure InfoShaped (d : J) : Prop where
  info : optObj (info d) = true
  contact : optObj (sub "contact" (Spec.Mixin.info d)) = true
  license : optObj (sub "license" (Spec.Mixin.info d)) = true

/-- the invariant of the loop for the count of reports -/
structure WInv (ds : List J) (st : Mixin.St) : Prop where
  isObj : st.doc.isObj = true
  ne : ds ≠ []
  shape : InfoShaped st.doc
  covK : ∀ s ∈ keyed4, Cover allKeys ((st.doc.getObj s).map (·.1)) (ds.map (sectKeys s)).flatten
  covP : Cover Doc.isPathKey ((st.doc.getObj "paths").map (·.1)) (ds.map (sectKeys "paths")).flatten
  cov0 : Cover isExtKey (keysO (some st.doc)) (ds.map fun d => extKeysOf (some d)).flatten
  cov1 : Cover isExtKey (keysO (info st.doc)) (ds.map fun d => extKeysOf (info d)).flatten
  cov2 : Cover isExtKey (keysO (sub "contact" (info st.doc)))
    (ds.map fun d => extKeysOf (sub "contact" (info d))).flatten
  cov3 : Cover isExtKey (keysO (sub "license" (info st.doc)))
    (ds.map fun d => extKeysOf (sub "license" (info d))).flatten
  count : st.warns.length + (st.doc.getArr "tags").length + (st.doc.getArr "security").length =
    keyColl ds + (ds.flatMap (·.getArr "tags")).length + (ds.flatMap (·.getArr "security")).length

theorem sectKeys_ne (s : String) (d : J) (h : s ≠ "paths") : sectKeys s d = (d.getObj s).map (·.1) := by
  unfold sectKeys; rw [sectionOf_ne _ _ h]

theorem sectKeys_paths (d : J) :
    sectKeys "paths" d = ((d.getObj "paths").filter fun kv => Doc.isPathKey kv.1).map (·.1) := by
  unfold sectKeys; rw [sectionOf_paths]; rfl

theorem isExtKey_notSection : ∀ k ∈ sectionKeys, isExtKey k = false := by decide

theorem keysO_congr (a b : J) (h : ∀ k, isExtKey k = true → a.get? k = b.get? k) :
    ∀ k, isExtKey k = true → (k ∈ keysO (some a) ↔ k ∈ keysO (some b)) := by
  intro k hk
  rw [mem_keysO_some, mem_keysO_some, h k hk]

theorem cover_single (P : String → Bool) (ks : List String) : Cover P ks ([ks] : List (List String)).flatten := by
  intro k _; simp

theorem keyedSections_mem : ∀ s ∈ keyed4, s ∈ keyedSections := by decide

/-- a keyed section other than paths, during one iteration -/
theorem keyed_catStep {f : Facts} {i : Nat} {st : Mixin.St} {m p1 : J} {w1 : List Mixin.Warn} {st' : Mixin.St}
    (sf : StepFacts f i st m p1 w1 st') (hd : DistinctKeys m) (s : String) (hs : s ∈ keyed4) :
    CatStep allKeys ((st.doc.getObj s).map (·.1)) ((st'.doc.getObj s).map (·.1)) (sectKeys s m)
      (fw allKeys (st.doc.getObj s) (m.getObj s)).2.length := by
  have hne := keyed4_ne_paths s hs
  have hnd := hd.sect s (keyedSections_mem s hs)
  rw [sectKeys_ne _ _ hne] at hnd ⊢
  have := fw_catStep allKeys (st.doc.getObj s) (m.getObj s) (by rw [filter_allKeys]; exact hnd)
    ((st'.doc.getObj s).map (·.1)) (by rw [sf.keyed s hs])
  rw [filter_allKeys] at this
  exact this

theorem paths_catStep {f : Facts} {i : Nat} {st : Mixin.St} {m p1 : J} {w1 : List Mixin.Warn} {st' : Mixin.St}
    (sf : StepFacts f i st m p1 w1 st') (hd : DistinctKeys m) :
    CatStep Doc.isPathKey ((st.doc.getObj "paths").map (·.1)) ((st'.doc.getObj "paths").map (·.1))
      (sectKeys "paths" m) (fw Doc.isPathKey (st.doc.getObj "paths") (m.getObj "paths")).2.length := by
  have hnd := hd.sect "paths" (by decide)
  rw [sectKeys_paths] at hnd ⊢
  exact fw_catStep Doc.isPathKey _ _ hnd _ (by rw [sf.paths, mergePaths_keys])

theorem sectKeys_paths_mem (d : J) : ∀ k ∈ sectKeys "paths" d, Doc.isPathKey k = true := by
  intro k hk
  rw [sectKeys_paths] at hk
  simp only [List.mem_map, List.mem_filter] at hk
  obtain ⟨kv, ⟨_, h⟩, rfl⟩ := hk
  exact h

theorem winv_step (f : Facts) (i : Nat) (ds : List J) (st : Mixin.St) (m : J) (st' : Mixin.St)
    (hinv : WInv ds st) (hq : InfoShaped m ∧ DistinctKeys m) (hs : Mixin.step f i st m = some st') :
    WInv (ds ++ [m]) st' := by
  obtain ⟨hsh, hd⟩ := hq
  obtain ⟨p1, w1, sf⟩ := step_facts f i st m st' hs hinv.isObj
  obtain ⟨w0, wi, wc, wl, hw, l0, l1, l23⟩ := sf.props.lvls
  obtain ⟨l2, l3⟩ := l23 hinv.shape.info
  have einfo : info st'.doc = info p1 := sf.top "info" (by decide)
  -- the nine categories
  have c0 : CatStep isExtKey (keysO (some st.doc)) (keysO (some st'.doc)) (extKeysOf (some m)) w0.length := by
    have c := lvl_catStep l0 (by rw [optObj_some]; exact hinv.isObj) hd.ext0
    refine ⟨c.cnt, fun k hk => ?_⟩
    rw [← c.cov k hk]
    apply keysO_congr _ _ _ k hk
    intro k' hk'
    exact sf.top k' (fun hm => by rw [isExtKey_notSection k' hm] at hk'; exact absurd hk' (by decide))
  have c1 : CatStep isExtKey (keysO (info st.doc)) (keysO (info st'.doc)) (extKeysOf (info m)) wi.length := by
    rw [einfo]; exact lvl_catStep l1 hinv.shape.info hd.ext1
  have c2 : CatStep isExtKey (keysO (sub "contact" (info st.doc))) (keysO (sub "contact" (info st'.doc)))
      (extKeysOf (sub "contact" (info m))) wc.length := by
    rw [einfo]; exact lvl_catStep l2 hinv.shape.contact hd.ext2
  have c3 : CatStep isExtKey (keysO (sub "license" (info st.doc))) (keysO (sub "license" (info st'.doc)))
      (extKeysOf (sub "license" (info m))) wl.length := by
    rw [einfo]; exact lvl_catStep l3 hinv.shape.license hd.ext3
  have r0 := catStep_inv hinv.cov0 (extKeysOf_ext _) c0 (by simpa using hinv.ne)
  have r1 := catStep_inv hinv.cov1 (extKeysOf_ext _) c1 (by simpa using hinv.ne)
  have r2 := catStep_inv hinv.cov2 (extKeysOf_ext _) c2 (by simpa using hinv.ne)
  have r3 := catStep_inv hinv.cov3 (extKeysOf_ext _) c3 (by simpa using hinv.ne)
  have rP := catStep_inv hinv.covP (sectKeys_paths_mem m) (paths_catStep sf hd) (by simpa using hinv.ne)
  have rK : ∀ s (hs : s ∈ keyed4), _ := fun s hs =>
    catStep_inv (hinv.covK s hs) (fun _ _ => rfl) (keyed_catStep sf hd s hs) (by simpa using hinv.ne)
  have rD := rK "definitions" (by decide)
  have rA := rK "parameters" (by decide)
  have rR := rK "responses" (by decide)
  have rS := rK "securityDefinitions" (by decide)
  refine ⟨sf.isObj, by simp, ⟨?_, ?_, ?_⟩, ?_, ?_, ?_, ?_, ?_, ?_, ?_⟩
  · rw [einfo]; exact l1.obj hinv.shape.info hsh.info
  · rw [einfo]; exact l2.obj hinv.shape.contact hsh.contact
  · rw [einfo]; exact l3.obj hinv.shape.license hsh.license
  · intro s hs; rw [List.map_append]; exact (rK s hs).1
  · rw [List.map_append]; exact rP.1
  · rw [List.map_append]; exact r0.1
  · rw [List.map_append]; exact r1.1
  · rw [List.map_append]; exact r2.1
  · rw [List.map_append]; exact r3.1
  · have hc := hinv.count
    have hwarns := sf.warns
    have hw1 : w1.length = w0.length + wi.length + wc.length + wl.length := by rw [hw]; simp; omega
    simp only [keyColl, List.map_append, List.map_cons, List.map_nil, List.flatMap_append, List.flatMap_cons,
      List.flatMap_nil, List.append_nil, List.length_append] at hc ⊢
    rw [r0.2, r1.2, r2.2, r3.2, rP.2, rD.2, rA.2, rR.2, rS.2]
    omega

theorem winv_init (p : J) (hp : p.isObj = true) (hsh : InfoShaped p) (ids : List String) :
    WInv [p] { doc := Mixin.initPrimary p, ids := ids, warns := [] } := by
  have g : ∀ k, k ≠ "paths" → (Mixin.initPrimary p).get? k = p.get? k := initPrimary_get?_ne p
  have hobj : (Mixin.initPrimary p).isObj = true := by rw [initPrimary_isObj]; exact hp
  have einfo : info (Mixin.initPrimary p) = info p := g "info" (by decide)
  refine ⟨hobj, by simp, ⟨?_, ?_, ?_⟩, ?_, ?_, ?_, ?_, ?_, ?_, ?_⟩
  · rw [einfo]; exact hsh.info
  · rw [einfo]; exact hsh.contact
  · rw [einfo]; exact hsh.license
  · intro s hs
    have hne := keyed4_ne_paths s hs
    simp only [List.map_cons, List.map_nil]
    rw [sectKeys_ne _ _ hne, getObj_congr _ _ _ (g s hne)]
    exact cover_single _ _
  · simp only [List.map_cons, List.map_nil]
    rw [initPrimary_paths p hp, sectKeys_paths]
    intro k hk
    simp only [List.flatten_cons, List.flatten_nil, List.append_nil]
    rw [← lookup_isSome_iff, ← lookup_isSome_iff, lookup_filter_pos _ _ _ hk]
  · intro k hk
    simp only [List.map_cons, List.map_nil, List.flatten_cons, List.flatten_nil, List.append_nil]
    rw [mem_extKeysOf, mem_keysO_some, mem_keysO_some,
      g k (by rintro rfl; revert hk; decide)]
    simp [hk]
  · intro k hk
    simp only [List.map_cons, List.map_nil, List.flatten_cons, List.flatten_nil, List.append_nil]
    rw [einfo, mem_extKeysOf]; simp [hk]
  · intro k hk
    simp only [List.map_cons, List.map_nil, List.flatten_cons, List.flatten_nil, List.append_nil]
    rw [einfo, mem_extKeysOf]; simp [hk]
  · intro k hk
    simp only [List.map_cons, List.map_nil, List.flatten_cons, List.flatten_nil, List.append_nil]
    rw [einfo, mem_extKeysOf]; simp [hk]
  · simp only [keyColl, List.map_cons, List.map_nil, collisions, collisions.collisionsFrom, List.flatMap_cons,
      List.flatMap_nil, List.append_nil, List.length_nil]
    rw [getArr_congr _ _ _ (g "tags" (by decide)), getArr_congr _ _ _ (g "security" (by decide))]

/-- the returned list has one entry per key collision -/
theorem mixin_warnings (f : Facts) (p : J) (ms : List J) (r : J × List Mixin.Warn)
    (hp : p.isObj = true) (hr : Mixin.mixin f p ms = .ok r)
    (hsh : ∀ d ∈ p :: ms, InfoShaped d) (hd : ∀ m ∈ ms, DistinctKeys m) :
    r.2.length = expectedWarnings (p :: ms) := by
  obtain ⟨st', e, hinv⟩ := mixin_inv f (fun _ ds st => WInv ds st) (fun m => InfoShaped m ∧ DistinctKeys m)
    (fun i ds st m st' => winv_step f i ds st m st') p ms r hr
    (fun m hm => ⟨hsh m (by simp [hm]), hd m hm⟩)
    (winv_init p hp (hsh p (by simp)) _)
  have hl := mixin_lists f p ms r hp hr
  have hc := hinv.count
  rw [e] at hl ⊢
  simp only at hl ⊢
  rw [hl.tags, hl.security] at hc
  have t := listCollisions_add "tags" sameTag (p :: ms) (by simp)
  have s := listCollisions_add "security" (· == ·) (p :: ms) (by simp)
  rw [expectedWarnings_eq]
  omega

end Proofs.Mixin
