import Verif.Model.Flatten
import Verif.Proofs.FlattenBase

/-!
  After `flattenAnonPointer` has moved a schema to a new definition, no key of the plan lies under the place the schema
  has left (except the key being visited): a pointer that moved with its holder is never expanded or re-targeted at its
  old key (the failure repaired by `630de91`), it is planned again by the next pass.
-/

namespace Proofs.StalePlans
open Flatten

/-- keys of a plan that are `key` or lie outside `moved/` -/
def Clean (moved key : String) (ps : List (String × PtrPlan)) : Prop :=
  ∀ p ∈ ps, p.1 = key ∨ Str.hasPrefix (moved ++ "/") p.1 = false

theorem clean_setPlan (moved key k : String) (v : PtrPlan) (hk : k = key ∨ Str.hasPrefix (moved ++ "/") k = false) :
    ∀ ps, Clean moved key ps → Clean moved key (setPlan k v ps) := by
  intro ps
  induction ps with
  | nil =>
    intro _ p hp
    simp only [setPlan, List.mem_singleton] at hp
    subst hp; exact hk
  | cons a rest ih =>
    intro h p hp
    obtain ⟨k', v'⟩ := a
    simp only [setPlan] at hp
    split at hp
    · rcases List.mem_cons.1 hp with hp | hp
      · subst hp; exact hk
      · exact h p (List.mem_cons_of_mem _ hp)
    · rcases List.mem_cons.1 hp with hp | hp
      · subst hp; exact h _ List.mem_cons_self
      · exact ih (fun q hq => h q (List.mem_cons_of_mem _ hq)) p hp

theorem clean_filter (moved key : String) (f : String × PtrPlan → Bool) (ps : List (String × PtrPlan))
    (h : Clean moved key ps) : Clean moved key (ps.filter f) :=
  fun p hp => h p (List.mem_filter.1 hp).1

/-- the plan that the naming branch of `flattenAnonPointer` returns -/
def plansAfterMove (v : PtrPlan) (key : String) (callers : List String) (plans : List (String × PtrPlan)) :
    List (String × PtrPlan) :=
  let moved := unescOrEmpty v.ref
  let plans0 := plans.filter (fun p => p.1 = key || !Str.hasPrefix (moved ++ "/") p.1)
  callers.foldl (fun ps caller =>
    if caller = key then ps
    else if Str.hasPrefix (moved ++ "/") caller then ps.filter (fun p => p.1 ≠ caller)
    else match ps.lookup caller with
      | some c => setPlan caller { c with ref := v.ref } ps
      | none => setPlan caller { ref := v.ref, schema := none, top := false } ps) plans0

theorem plansAfterMove_clean (v : PtrPlan) (key : String) (callers : List String) (plans : List (String × PtrPlan)) :
    Clean (unescOrEmpty v.ref) key (plansAfterMove v key callers plans) := by
  unfold plansAfterMove
  dsimp only
  generalize hm : unescOrEmpty v.ref = moved
  have h0 : Clean moved key (plans.filter (fun p => p.1 = key || !Str.hasPrefix (moved ++ "/") p.1)) := by
    intro p hp
    have := (List.mem_filter.1 hp).2
    simp only [Bool.or_eq_true, decide_eq_true_eq, Bool.not_eq_true'] at this
    exact this
  generalize plans.filter (fun p => p.1 = key || !Str.hasPrefix (moved ++ "/") p.1) = ps0 at h0
  induction callers generalizing ps0 with
  | nil => exact h0
  | cons c rest ih =>
    simp only [List.foldl_cons]
    apply ih
    split
    · exact h0
    · split
      · exact clean_filter _ _ _ _ h0
      · rename_i hnk hnp
        have hc : c = key ∨ Str.hasPrefix (moved ++ "/") c = false := Or.inr (by simpa using hnp)
        split
        · exact clean_setPlan _ _ _ _ hc _ h0
        · exact clean_setPlan _ _ _ _ hc _ h0

end Proofs.StalePlans

namespace Proofs.StalePlans
open Flatten OutcomeM

/-- what `flattenAnonPointer` does to the plan: nothing (no caller left, or the pointer is expanded in place), or - when
    it moves the schema to a new definition - `plansAfterMove` -/
theorem flattenAnonPointer_plans (fc : Facts) (x : Ext) (o : Opts) (ops : List (String × OpRef))
    (st : St) (plans : List (String × PtrPlan)) (key : String) (v : PtrPlan) (r : St × List (String × PtrPlan))
    (h : flattenAnonPointer fc x o ops st plans key v = .ok r) :
    r.2 = plans ∨ ∃ callers, r.2 = plansAfterMove v key callers plans := by
  unfold flattenAnonPointer at h
  obtain ⟨schema, _, h⟩ := bind_eq_ok.1 h
  obtain ⟨fl, _, h⟩ := bind_eq_ok.1 h
  obtain ⟨callers, _, h⟩ := bind_eq_ok.1 h
  split at h
  · simp only [pure_eq_ok] at h; subst h; exact Or.inl rfl
  · dsimp only at h
    split at h
    · obtain ⟨st1, h1, h⟩ := bind_eq_ok.1 h
      simp only [pure_eq_ok] at h; subst h
      exact Or.inr ⟨callers, rfl⟩
    · obtain ⟨d, h1, h⟩ := bind_eq_ok.1 h
      simp only [pure_eq_ok] at h; subst h
      exact Or.inl rfl

end Proofs.StalePlans

namespace Proofs.StalePlans
open Flatten OutcomeM

/-- the loop of `namePointers` returns the state of a pass that has skipped nothing -/
theorem namePointersLoop_last_pass (fc : Facts) (x : Ext) (o : Opts) : ∀ (fuel : Nat) (s s' : St),
    namePointersLoop fc x o fuel s = .ok s' → ∃ s0, namePointersPass fc x o s0 = .ok (s', false) := by
  intro fuel
  induction fuel with
  | zero => intro s s' h; simp [namePointersLoop] at h
  | succ n ih =>
    intro s s' h
    unfold namePointersLoop at h
    obtain ⟨⟨s1, rp⟩, h1, h⟩ := bind_eq_ok.1 h
    dsimp only at h
    split at h
    · exact ih _ _ h
    · rename_i hrp
      simp only [pure_eq_ok] at h
      subst h
      have : rp = false := by simpa using hrp
      subst this
      exact ⟨s, h1⟩

end Proofs.StalePlans
