import Verif.Proofs.RemoveUnused

/-!
  C06, third clause at the level of the removal phases: removing unused definitions creates no
  dangling `$ref`.  If every definition designated by a schema `$ref` of the document exists, the same
  holds after a removal pass, after the whole removal loop and after `removeUnusedShared` + loop —
  whatever the names.  (Only `$ref`s of the form `#/definitions/<name>` are concerned: that is what a
  successful `namePointers` leaves, C02.)
-/

namespace Proofs.RemoveUnusedDangling
open J _root_.RemoveUnused Analyzer

/-- the definitions the schema `$ref`s of the document designate all exist -/
def NoDangling (f : Facts) (x : Ext) (d : J) : Prop :=
  ∀ n ∈ usedNames f x d, n ∈ (d.getObj "definitions").map (·.1)

/-- what `analyze` reads from the document apart from the definitions -/
def restOf (f : Facts) (d : J) : List Ent :=
  (d.getStrs "consumes").map Ent.consumes ++ (d.getStrs "produces").map Ent.produces ++
  ((d.getArr "security").flatMap fun req => match req with | .obj kvs => kvs.map fun kv => Ent.auth kv.1 | _ => []) ++
  ((Doc.pathItems d).flatMap fun kv => analyzeOperations f kv.1 kv.2) ++
  ((d.getObj "parameters").flatMap fun kv =>
    let refPref := Str.join ["/parameters", Str.esc kv.1]
    analyzeItems kv.2 refPref "parameter" ++
    (if kv.2.getStr "in" = "body" then schemaOf kv.2 refPref else []) ++
    patEnum "parameter" refPref kv.2) ++
  ((d.getObj "responses").flatMap fun kv =>
    let refPref := Str.join ["/responses", Str.esc kv.1]
    analyzeHeaders refPref kv.2 true ++ schemaOf kv.2 refPref)

def defsPart (defs : List (String × J)) : List Ent :=
  defs.flatMap fun kv => analyzeSchema kv.1 kv.2 "/definitions"

theorem analyze_split (f : Facts) (d : J) : analyze f d = restOf f d ++ defsPart (d.getObj "definitions") := rfl

theorem getObj_congr {d d' : J} {k : String} (h : d'.get? k = d.get? k) : d'.getObj k = d.getObj k := by
  unfold J.getObj; rw [h]

theorem getArr_congr {d d' : J} {k : String} (h : d'.get? k = d.get? k) : d'.getArr k = d.getArr k := by
  unfold J.getArr; rw [h]

theorem getStrs_congr {d d' : J} {k : String} (h : d'.get? k = d.get? k) : d'.getStrs k = d.getStrs k := by
  unfold J.getStrs; rw [getArr_congr h]

theorem restOf_congr (f : Facts) (d d' : J) (h : ∀ k, k ≠ "definitions" → d'.get? k = d.get? k) :
    restOf f d' = restOf f d := by
  unfold restOf Doc.pathItems
  rw [getStrs_congr (h "consumes" (by decide)), getStrs_congr (h "produces" (by decide)),
    getArr_congr (h "security" (by decide)), getObj_congr (h "paths" (by decide)),
    getObj_congr (h "parameters" (by decide)), getObj_congr (h "responses" (by decide))]

theorem refsWhere_append (p : String → Bool) (a b : List Ent) :
    Index.refsWhere p (a ++ b) = Index.refsWhere p a ++ Index.refsWhere p b := by
  unfold Index.refsWhere; rw [List.filterMap_append]

theorem defsPart_filter_subset (p : String × J → Bool) (defs : List (String × J)) :
    ∀ e ∈ defsPart (defs.filter p), e ∈ defsPart defs := by
  intro e he
  unfold defsPart at *
  obtain ⟨kv, hkv, hin⟩ := List.mem_flatMap.1 he
  exact List.mem_flatMap.2 ⟨kv, (List.mem_filter.1 hkv).1, hin⟩

/-- a document that differs only by having fewer definitions designates fewer definitions -/
theorem usedNames_subset (f : Facts) (x : Ext) (d d' : J) (p : String × J → Bool)
    (h : ∀ k, k ≠ "definitions" → d'.get? k = d.get? k)
    (hd : d'.getObj "definitions" = (d.getObj "definitions").filter p) :
    ∀ n ∈ usedNames f x d', n ∈ usedNames f x d := by
  intro n hn
  unfold usedNames at *
  rw [analyze_split, restOf_congr f d d' h, hd, refsWhere_append] at hn
  rw [analyze_split, refsWhere_append]
  rw [List.filterMap_append] at hn ⊢
  rcases List.mem_append.1 hn with hn | hn
  · exact List.mem_append_left _ hn
  · apply List.mem_append_right
    obtain ⟨kv, hkv, hsome⟩ := List.mem_filterMap.1 hn
    refine List.mem_filterMap.2 ⟨kv, ?_, hsome⟩
    unfold Index.refsWhere at hkv ⊢
    obtain ⟨e, he, hes⟩ := List.mem_filterMap.1 hkv
    exact List.mem_filterMap.2 ⟨e, defsPart_filter_subset p _ e he, hes⟩

/-- one removal pass creates no dangling `$ref` -/
theorem singlePass_noDangling (f : Facts) (x : Ext) (d : J) (h : NoDangling f x d) :
    NoDangling f x (singlePass f x d).1 := by
  intro n hn
  have hdefs := Proofs.RemoveUnused.singlePass_getObj f x d
  have hsub := usedNames_subset f x d (singlePass f x d).1 (fun kv => (usedNames f x d).contains kv.1)
    (fun k hk => Proofs.RemoveUnused.singlePass_get?_ne f x d k hk) hdefs n hn
  rw [hdefs]
  obtain ⟨kv, hkv, rfl⟩ := List.mem_map.1 (h n hsub)
  exact List.mem_map.2 ⟨kv, List.mem_filter.2 ⟨hkv, by simpa using hsub⟩, rfl⟩

/-- the removal loop creates no dangling `$ref` -/
theorem removeUnused_noDangling (f : Facts) (x : Ext) :
    ∀ (fuel : Nat) (d d' : J), removeUnused f x fuel d = .ok d' → NoDangling f x d → NoDangling f x d'
  | 0, _, _, h, _ => by cases h
  | fuel + 1, d, d', h, hn => by
    unfold removeUnused at h
    dsimp only at h
    split at h
    · exact removeUnused_noDangling f x fuel _ d' h (singlePass_noDangling f x d hn)
    · cases h
      exact singlePass_noDangling f x d hn

/-- `removeUnusedShared` (dropping the shared parameters and responses) creates no dangling `$ref` -/
theorem removeShared_noDangling (f : Facts) (x : Ext) (d : J) (h : NoDangling f x d) :
    NoDangling f x (removeShared d) := by
  have hne : ∀ k, k ≠ "parameters" → k ≠ "responses" → (removeShared d).get? k = d.get? k :=
    Proofs.RemoveUnused.get?_removeShared_ne d
  have hdefs : (removeShared d).getObj "definitions" = d.getObj "definitions" :=
    getObj_congr (hne "definitions" (by decide) (by decide))
  have hp : (removeShared d).getObj "parameters" = [] := by
    unfold J.getObj; rw [Proofs.RemoveUnused.get?_removeShared_parameters]
  have hr : (removeShared d).getObj "responses" = [] := by
    unfold J.getObj; rw [Proofs.RemoveUnused.get?_removeShared_responses]
  intro n hn
  rw [hdefs]
  apply h
  unfold usedNames at *
  rw [analyze_split, refsWhere_append, List.filterMap_append] at hn ⊢
  rcases List.mem_append.1 hn with hn | hn
  · apply List.mem_append_left
    obtain ⟨kv, hkv, hsome⟩ := List.mem_filterMap.1 hn
    refine List.mem_filterMap.2 ⟨kv, ?_, hsome⟩
    unfold Index.refsWhere at hkv ⊢
    obtain ⟨e, he, hes⟩ := List.mem_filterMap.1 hkv
    refine List.mem_filterMap.2 ⟨e, ?_, hes⟩
    unfold restOf Doc.pathItems at he ⊢
    rw [hp, hr, getStrs_congr (hne "consumes" (by decide) (by decide)),
      getStrs_congr (hne "produces" (by decide) (by decide)),
      getArr_congr (hne "security" (by decide) (by decide)),
      getObj_congr (hne "paths" (by decide) (by decide))] at he
    simp only [List.flatMap_nil, List.append_nil] at he
    simp only [List.mem_append] at he ⊢
    exact Or.inl (Or.inl he)
  · apply List.mem_append_right
    rw [hdefs] at hn
    exact hn

/-! ### no `$ref` at all stays no `$ref` at all -/

/-- the analyzer sees no `$ref` of any kind -/
def RefFree (f : Facts) (d : J) : Prop := Index.refsWhere (fun _ => true) (analyze f d) = []

theorem refsWhere_nil_iff (es : List Ent) :
    Index.refsWhere (fun _ => true) es = [] ↔ ∀ e ∈ es, ∀ k key r, e ≠ Ent.ref k key r := by
  unfold Index.refsWhere
  rw [List.filterMap_eq_nil_iff]
  constructor
  · intro h e he k key r heq
    have := h e he
    rw [heq] at this
    simp at this
  · intro h e he
    cases e with
    | ref k key r => exact absurd rfl (h _ he k key r)
    | _ => rfl

/-- fewer definitions, same other parts: still no `$ref` -/
theorem refFree_of_fewer_defs (f : Facts) (d d' : J) (p : String × J → Bool)
    (h : ∀ k, k ≠ "definitions" → d'.get? k = d.get? k)
    (hd : d'.getObj "definitions" = (d.getObj "definitions").filter p) (hr : RefFree f d) : RefFree f d' := by
  unfold RefFree at *
  rw [refsWhere_nil_iff] at *
  intro e he
  apply hr e
  rw [analyze_split, restOf_congr f d d' h, hd] at he
  rw [analyze_split]
  rcases List.mem_append.1 he with he | he
  · exact List.mem_append_left _ he
  · exact List.mem_append_right _ (defsPart_filter_subset p _ e he)

theorem singlePass_refFree (f : Facts) (x : Ext) (d : J) (hr : RefFree f d) : RefFree f (singlePass f x d).1 :=
  refFree_of_fewer_defs f d _ (fun kv => (usedNames f x d).contains kv.1)
    (fun k hk => Proofs.RemoveUnused.singlePass_get?_ne f x d k hk) (Proofs.RemoveUnused.singlePass_getObj f x d) hr

theorem removeUnused_refFree (f : Facts) (x : Ext) :
    ∀ (fuel : Nat) (d d' : J), removeUnused f x fuel d = .ok d' → RefFree f d → RefFree f d'
  | 0, _, _, h, _ => by cases h
  | fuel + 1, d, d', h, hn => by
    unfold removeUnused at h
    dsimp only at h
    split at h
    · exact removeUnused_refFree f x fuel _ d' h (singlePass_refFree f x d hn)
    · cases h
      exact singlePass_refFree f x d hn

theorem removeShared_refFree (f : Facts) (d : J) (hr : RefFree f d) : RefFree f (removeShared d) := by
  have hne : ∀ k, k ≠ "parameters" → k ≠ "responses" → (removeShared d).get? k = d.get? k :=
    Proofs.RemoveUnused.get?_removeShared_ne d
  have hp : (removeShared d).getObj "parameters" = [] := by
    unfold J.getObj; rw [Proofs.RemoveUnused.get?_removeShared_parameters]
  have hq : (removeShared d).getObj "responses" = [] := by
    unfold J.getObj; rw [Proofs.RemoveUnused.get?_removeShared_responses]
  unfold RefFree at *
  rw [refsWhere_nil_iff] at *
  intro e he
  apply hr e
  rw [analyze_split] at he ⊢
  rcases List.mem_append.1 he with he | he
  · apply List.mem_append_left
    unfold restOf Doc.pathItems at he ⊢
    rw [hp, hq, getStrs_congr (hne "consumes" (by decide) (by decide)),
      getStrs_congr (hne "produces" (by decide) (by decide)),
      getArr_congr (hne "security" (by decide) (by decide)),
      getObj_congr (hne "paths" (by decide) (by decide))] at he
    simp only [List.flatMap_nil, List.append_nil] at he
    simp only [List.mem_append] at he ⊢
    exact Or.inl (Or.inl he)
  · apply List.mem_append_right
    rw [getObj_congr (hne "definitions" (by decide) (by decide))] at he
    exact he

/-- the removal loop on a `$ref`-free document: it returns (no error, no starvation with the fuel the
    phase gives it) a document without definitions -/
theorem removeUnused_refFree_result (f : Facts) (x : Ext) (d : J) (hr : RefFree f d) :
    ∃ d', removeUnused f x ((d.getObj "definitions").length + 2) d = .ok d' ∧ RefFree f d' := by
  have hne := Proofs.RemoveUnused.removeUnused_ne_outOfFuel f x ((d.getObj "definitions").length + 2) d (by omega)
  -- the loop has only two outcomes
  have hcases : ∀ (fuel : Nat) (d0 : J), (∃ d', removeUnused f x fuel d0 = .ok d') ∨ removeUnused f x fuel d0 = .outOfFuel := by
    intro fuel
    induction fuel with
    | zero => intro d0; exact .inr rfl
    | succ n ih =>
      intro d0
      simp only [removeUnused]
      split
      · exact ih _
      · exact .inl ⟨_, rfl⟩
  rcases hcases ((d.getObj "definitions").length + 2) d with ⟨d', hd'⟩ | hoof
  · exact ⟨d', hd', removeUnused_refFree f x _ d d' hd' hr⟩
  · exact absurd hoof hne

end Proofs.RemoveUnusedDangling
