import Verif.Model.Flatten
import Verif.Proofs.JsonLemmas

/-!
  Lemmas under the theorems about the Flatten phase model: the `Outcome` monad, invariants through
  `foldlM`, and the frame of the replace primitives (`setAt` only rewrites below an existing key).
-/

namespace OutcomeM

theorem bind_eq_ok {α β : Type} {x : Outcome α} {f : α → Outcome β} {b : β} :
    (x >>= f) = .ok b ↔ ∃ a, x = .ok a ∧ f a = .ok b := by
  cases x <;> simp [Bind.bind, Outcome.bind]

theorem bind'_eq_ok {α β : Type} {x : Outcome α} {f : α → Outcome β} {b : β} :
    x.bind f = .ok b ↔ ∃ a, x = .ok a ∧ f a = .ok b := by
  cases x <;> simp [Outcome.bind]

@[simp] theorem pure_eq_ok {α : Type} (a b : α) : (pure a : Outcome α) = .ok b ↔ a = b := by
  simp [Pure.pure]

/-- an invariant kept by every step is kept by a monadic fold -/
theorem foldlM_inv {σ α : Type} (P : σ → Prop) (f : σ → α → Outcome σ)
    (hf : ∀ s a s', P s → f s a = .ok s' → P s') :
    ∀ (l : List α) (s s' : σ), P s → l.foldlM f s = .ok s' → P s' := by
  intro l
  induction l with
  | nil => intro s s' hp h; simp [List.foldlM] at h; exact h ▸ hp
  | cons a l ih =>
    intro s s' hp h
    simp only [List.foldlM] at h
    obtain ⟨s1, h1, h2⟩ := bind_eq_ok.1 h
    exact ih s1 s' (hf s a s1 hp h1) h2

/-- the same with the run first (lets the fold's function and start state be read off the hypothesis) -/
theorem foldlM_inv' {σ α : Type} (P : σ → Prop) {f : σ → α → Outcome σ} {l : List α} {s s' : σ}
    (h : l.foldlM f s = .ok s') (hf : ∀ s a s', P s → f s a = .ok s' → P s') (hp : P s) : P s' :=
  foldlM_inv P f hf l s s' hp h

/-- the same, when the steps may use membership in the list -/
theorem foldlM_inv_mem {σ α : Type} (P : σ → Prop) (f : σ → α → Outcome σ) (l : List α)
    (hf : ∀ s a s', a ∈ l → P s → f s a = .ok s' → P s') :
    ∀ (s s' : σ), P s → l.foldlM f s = .ok s' → P s' := by
  induction l with
  | nil => intro s s' hp h; simp [List.foldlM] at h; exact h ▸ hp
  | cons a l ih =>
    intro s s' hp h
    simp only [List.foldlM] at h
    obtain ⟨s1, h1, h2⟩ := bind_eq_ok.1 h
    exact ih (fun s b s' hb => hf s b s' (List.mem_cons_of_mem _ hb)) s1 s'
      (hf s a s1 List.mem_cons_self hp h1) h2

end OutcomeM

namespace Proofs.FlattenBase
open J Replace

/-! ### frame of `setAt` at the top level of the document -/

/-- `setAt` below a non-empty token path never creates a top-level key -/
theorem setAt_get?_none (d : J) (t : String) (ts : List String) (v d' : J)
    (h : setAt d (t :: ts) v = some d') (k : String) (hk : d.get? k = none) : d'.get? k = none := by
  cases d with
  | obj kvs =>
    simp only [setAt] at h
    cases hl : lookup t kvs with
    | none => simp [hl] at h
    | some c =>
      simp only [hl, Option.map_eq_some_iff] at h
      obtain ⟨c', _, rfl⟩ := h
      by_cases hkt : k = t
      · subst hkt; simp [get?, hl] at hk
      · simp [get?, lookup_setKv_ne _ _ _ _ hkt] at hk ⊢; exact hk
  | arr xs =>
    simp only [setAt] at h
    cases hn : Spec.Pointer.natOfDigits t.toList with
    | none => simp [hn] at h
    | some i =>
      simp only [hn] at h
      cases hx : xs[i]? with
      | none => simp [hx] at h
      | some c =>
        simp only [hx, Option.map_eq_some_iff] at h
        obtain ⟨c', _, rfl⟩ := h
        rfl
  | null => simp [setAt] at h
  | bool b => simp [setAt] at h
  | num n => simp [setAt] at h
  | str s => simp [setAt] at h

/-- `setAt` below a path whose first token is not `k` leaves the top-level entry `k` alone -/
theorem setAt_get?_ne (d : J) (t : String) (ts : List String) (v d' : J)
    (h : setAt d (t :: ts) v = some d') (k : String) (hk : k ≠ t) : d'.get? k = d.get? k := by
  cases d with
  | obj kvs =>
    simp only [setAt] at h
    cases hl : lookup t kvs with
    | none => simp [hl] at h
    | some c =>
      simp only [hl, Option.map_eq_some_iff] at h
      obtain ⟨c', _, rfl⟩ := h
      simp [get?, lookup_setKv_ne _ _ _ _ hk]
  | arr xs =>
    simp only [setAt] at h
    cases hn : Spec.Pointer.natOfDigits t.toList with
    | none => simp [hn] at h
    | some i =>
      simp only [hn] at h
      cases hx : xs[i]? with
      | none => simp [hx] at h
      | some c =>
        simp only [hx, Option.map_eq_some_iff] at h
        obtain ⟨c', _, rfl⟩ := h
        rfl
  | null => simp [setAt] at h
  | bool b => simp [setAt] at h
  | num n => simp [setAt] at h
  | str s => simp [setAt] at h

/-- a walk that ends on a schema position has consumed at least one token -/
theorem walk_schemaKind_ne_nil (d : J) (toks : List String) (n : J) (k : Kind)
    (h : walk .swagger d toks = some (n, k)) (hk : isSchemaKind k = true) : toks ≠ [] := by
  intro he
  subst he
  simp [walk] at h
  obtain ⟨_, rfl⟩ := h
  simp [isSchemaKind] at hk

/-! ### the three primitives never create the shared sections -/

/-- the part of the document the RemoveUnused clause of C06 talks about -/
def NoShared (d : J) : Prop := d.get? "parameters" = none ∧ d.get? "responses" = none

theorem setAt_noShared (d : J) (toks : List String) (v d' : J) (hne : toks ≠ [])
    (h : setAt d toks v = some d') (hn : NoShared d) : NoShared d' := by
  cases toks with
  | nil => exact absurd rfl hne
  | cons t ts => exact ⟨setAt_get?_none d t ts v d' h _ hn.1, setAt_get?_none d t ts v d' h _ hn.2⟩

theorem updateRef_noShared (d : J) (key ref : String) (d' : J)
    (h : updateRef d key ref = .ok d') (hn : NoShared d) : NoShared d' := by
  unfold updateRef at h
  simp only at h
  split at h
  · cases h
  · rename_i node kind hw
    have hne : ∀ (hk : isSchemaKind kind = true), keyTokens key ≠ [] :=
      fun hk => walk_schemaKind_ne_nil d _ node kind hw hk
    split at h
    · split at h
      · rename_i d'' hs; cases h; exact setAt_noShared d _ _ _ (hne rfl) hs hn
      · cases h
    all_goals first
      | (split at h
         · rename_i d'' hs; cases h; exact setAt_noShared d _ _ _ (hne rfl) hs hn
         · cases h)
      | cases h

theorem rewriteSchemaToRef_noShared (d : J) (key ref : String) (d' : J)
    (h : rewriteSchemaToRef d key ref = .ok d') (hn : NoShared d) : NoShared d' := by
  unfold rewriteSchemaToRef at h
  simp only at h
  split at h
  · cases h
  · rename_i node kind hw
    split at h
    · cases h
    · split at h
      · rename_i hk
        split at h
        · rename_i d'' hs; cases h
          exact setAt_noShared d _ _ _ (walk_schemaKind_ne_nil d _ node kind hw hk) hs hn
        · cases h
      · cases h

theorem updateRefWithSchema_noShared (d : J) (key : String) (sch d' : J)
    (h : updateRefWithSchema d key sch = .ok d') (hn : NoShared d) : NoShared d' := by
  unfold updateRefWithSchema at h
  simp only at h
  split at h
  · cases h
  · rename_i node kind hw
    split at h
    · rename_i hk
      split at h
      · rename_i d'' hs; cases h
        exact setAt_noShared d _ _ _ (walk_schemaKind_ne_nil d _ node kind hw hk) hs hn
      · cases h
    · cases h

theorem set_definitions_noShared (d v : J) (hn : NoShared d) : NoShared (d.set "definitions" v) := by
  refine ⟨?_, ?_⟩
  · rw [get?_set_ne _ _ _ _ (by decide)]; exact hn.1
  · rw [get?_set_ne _ _ _ _ (by decide)]; exact hn.2

end Proofs.FlattenBase
