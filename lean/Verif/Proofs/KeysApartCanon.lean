import Verif.Proofs.UpdateComm
import Verif.Proofs.MoveBase

/-!
  When is the hypothesis of the order-independence theorems (`PosDistinct`, `KeysApart`) met?  Whenever the
  token paths are different and spell their numerals canonically (`"7"`, not `"07"`): array indices written by
  the analyzer (`strconv.Itoa`) always do; names are unconstrained otherwise.
-/

namespace Proofs.KeysApartCanon
open Proofs.UpdateComm Proofs.MoveBase

theorem posDistinct_of_ne_canon : ∀ (p q : List String), p ≠ q → (∀ t ∈ p, CanonTok t) → (∀ t ∈ q, CanonTok t) →
    PosDistinct p q := by
  intro p
  induction p with
  | nil =>
    intro q hne _ _
    cases q with
    | nil => exact absurd rfl hne
    | cons u us => exact .nil_cons u us
  | cons t ts ih =>
    intro q hne hp hq
    cases q with
    | nil => exact .cons_nil t ts
    | cons u us =>
      by_cases htu : t = u
      · subst htu
        refine .same t (ih us ?_ (fun x hx => hp x (List.mem_cons_of_mem _ hx)) (fun x hx => hq x (List.mem_cons_of_mem _ hx)))
        intro h; exact hne (by rw [h])
      · refine .diff ts us htu ?_
        intro i hi hu
        have e1 := (hp t List.mem_cons_self).eq i hi
        have e2 := (hq u List.mem_cons_self).eq i hu
        exact htu (e1.trans e2.symm)

/-- a list of keys with pairwise different, canonically spelled token paths is pairwise apart -/
theorem keysApart_of_canon (l : List (String × String))
    (hd : l.Pairwise fun a b => Replace.keyTokens a.1 ≠ Replace.keyTokens b.1)
    (hc : ∀ a ∈ l, ∀ t ∈ Replace.keyTokens a.1, CanonTok t) : l.Pairwise KeysApart := by
  induction l with
  | nil => exact List.Pairwise.nil
  | cons a rest ih =>
    obtain ⟨h1, h2⟩ := List.pairwise_cons.1 hd
    refine List.pairwise_cons.2 ⟨fun b hb => ?_, ih h2 (fun x hx => hc x (List.mem_cons_of_mem _ hx))⟩
    exact posDistinct_of_ne_canon _ _ (h1 b hb) (hc a List.mem_cons_self) (hc b (List.mem_cons_of_mem _ hb))

end Proofs.KeysApartCanon
