import Verif.Proofs.Inline

/-!
  The import move (`importNewRef`, `importKnownRef`): a definition of another document is copied into the root under a
  fresh local name, and the `$ref`s that designated the remote definition are pointed at the copy — in the root and, in
  later rounds, inside the copy itself.

  Stated on bundles, as a bisimulation given by *local* conditions on nodes: `Rel` relates every position of the domain
  to itself and `src ++ t` to `nd ++ t`; related positions hold nodes of the same shape that are `$ref`s together, and
  the `$ref`s of related nodes designate related positions (the same position, or the remote definition on one side and
  its copy on the other).  Then related positions denote the same tree.
-/

namespace Proofs.ImportMove
open J Spec.Meaning _root_.Cert Proofs.Bisim Proofs.Move Proofs.Retarget Proofs.Inline

structure MSetting where
  b1 : Bundle
  b2 : Bundle
  src : Pos
  nd : Pos
  /-- the positions related to themselves -/
  Dom : Pos → Prop
  /-- the paths below the remote definition (and below its copy) that are related: closed under the children of nodes
      that are not `$ref`s (the members of a `$ref` node are never looked at) -/
  CDom : List String → Prop

namespace MSetting
variable (S : MSetting)

def Rel (p q : Pos) : Prop := (p = q ∧ S.Dom p) ∨ (∃ t, S.CDom t ∧ p = ext S.src t ∧ q = ext S.nd t)

/-- what two `$ref` strings designate is related -/
def TargetsRel (p q : Pos) (ra rc : String) : Prop :=
  match S.b1.target p.1 ra, S.b2.target q.1 rc with
  | none, none => True
  | some t1, some t2 => S.Rel t1 t2
  | _, _ => False

/-- local agreement of the nodes at two positions -/
def NodeRel (p q : Pos) : Prop :=
  match S.b1.node p, S.b2.node q with
  | none, none => True
  | some a, some c =>
    ShapeEq a c ∧ (Doc.refStr a = "" ↔ Doc.refStr c = "") ∧ (Doc.refStr a ≠ "" → S.TargetsRel p q (Doc.refStr a) (Doc.refStr c))
  | _, _ => False

/-- the local conditions -/
structure Local : Prop where
  hid : ∀ p, S.Dom p → S.NodeRel p p
  hcopy : ∀ t, S.CDom t → S.NodeRel (ext S.src t) (ext S.nd t)
  hcopyC : ∀ t a, S.CDom t → S.b1.node (ext S.src t) = some a → Doc.refStr a = "" →
    (∀ kvs, a = .obj kvs → ∀ key ∈ (visible kvs).map (·.1), S.CDom (t ++ [key])) ∧
    (∀ xs, a = .arr xs → ∀ i : Nat, S.CDom (t ++ [toString i]))
  hdomC : ∀ x a, S.Dom x → S.b1.node x = some a → Doc.refStr a = "" →
    (∀ kvs, a = .obj kvs → ∀ key ∈ (visible kvs).map (·.1), S.Dom (child x key)) ∧
    (∀ xs, a = .arr xs → ∀ i : Nat, S.Dom (child x (toString i)))

variable {S}

theorem nodeRel_of_rel (hl : S.Local) {p q : Pos} (h : S.Rel p q) : S.NodeRel p q := by
  rcases h with ⟨rfl, hd⟩ | ⟨t, ht, rfl, rfl⟩
  · exact hl.hid p hd
  · exact hl.hcopy t ht

theorem chase_fwd (hl : S.Local) : ∀ (h : Nat) (p q x : Pos), S.Rel p q → chase S.b1 h p = some x →
    ∃ y, chase S.b2 h q = some y ∧ S.Rel x y := by
  intro h
  induction h with
  | zero => intro p q x _ hc; simp [chase] at hc
  | succ h ih =>
    intro p q x hr hc
    have hn := nodeRel_of_rel hl hr
    unfold NodeRel at hn
    rw [Setting.chase_succ] at hc ⊢
    cases h1 : S.b1.node p with
    | none => simp [h1] at hc
    | some a =>
      cases h2 : S.b2.node q with
      | none => rw [h1, h2] at hn; exact hn.elim
      | some c =>
        rw [h1, h2] at hn
        obtain ⟨_, hiff, htg⟩ := hn
        simp only [h1] at hc
        simp only
        by_cases hre : Doc.refStr a = ""
        · have hrc := hiff.1 hre
          simp only [hre, ne_eq, not_true_eq_false, if_false, Option.some.injEq] at hc
          simp only [hrc, ne_eq, not_true_eq_false, if_false]
          exact ⟨q, rfl, hc ▸ hr⟩
        · have hrc : Doc.refStr c ≠ "" := fun h' => hre (hiff.2 h')
          simp only [ne_eq, hre, not_false_eq_true, if_true] at hc
          simp only [ne_eq, hrc, not_false_eq_true, if_true]
          have ht := htg hre
          unfold TargetsRel at ht
          cases ht1 : S.b1.target p.1 (Doc.refStr a) with
          | none => simp [ht1] at hc
          | some t1 =>
            cases ht2 : S.b2.target q.1 (Doc.refStr c) with
            | none => rw [ht1, ht2] at ht; exact ht.elim
            | some t2 =>
              rw [ht1, ht2] at ht
              simp only [ht1] at hc
              simp only
              exact ih t1 t2 x ht hc

theorem chase_bwd (hl : S.Local) : ∀ (h : Nat) (p q y : Pos), S.Rel p q → chase S.b2 h q = some y →
    ∃ x, chase S.b1 h p = some x ∧ S.Rel x y := by
  intro h
  induction h with
  | zero => intro p q y _ hc; simp [chase] at hc
  | succ h ih =>
    intro p q y hr hc
    have hn := nodeRel_of_rel hl hr
    unfold NodeRel at hn
    rw [Setting.chase_succ] at hc ⊢
    cases h2 : S.b2.node q with
    | none => simp [h2] at hc
    | some c =>
      cases h1 : S.b1.node p with
      | none => rw [h1, h2] at hn; exact hn.elim
      | some a =>
        rw [h1, h2] at hn
        obtain ⟨_, hiff, htg⟩ := hn
        simp only [h2] at hc
        simp only
        by_cases hre : Doc.refStr a = ""
        · have hrc := hiff.1 hre
          simp only [hrc, ne_eq, not_true_eq_false, if_false, Option.some.injEq] at hc
          simp only [hre, ne_eq, not_true_eq_false, if_false]
          exact ⟨p, rfl, hc ▸ hr⟩
        · have hrc : Doc.refStr c ≠ "" := fun h' => hre (hiff.2 h')
          simp only [ne_eq, hrc, not_false_eq_true, if_true] at hc
          simp only [ne_eq, hre, not_false_eq_true, if_true]
          have ht := htg hre
          unfold TargetsRel at ht
          cases ht2 : S.b2.target q.1 (Doc.refStr c) with
          | none => simp [ht2] at hc
          | some t2 =>
            cases ht1 : S.b1.target p.1 (Doc.refStr a) with
            | none => rw [ht1, ht2] at ht; exact ht.elim
            | some t1 =>
              rw [ht1, ht2] at ht
              simp only [ht2] at hc
              simp only
              exact ih t1 t2 y ht hc

/-- related positions denote the same tree: in particular every position of the domain keeps its meaning, and the copy
    denotes what the remote definition denotes.  (No adequacy hypothesis: the two chases take the same number of hops.) -/
theorem import_preserves (hl : S.Local) (hops : Nat) :
    ∀ n p q, S.Rel p q → unfold S.b1 hops n p = unfold S.b2 hops n q := by
  intro n p q hR
  refine bisim_sound S.b1 S.b2 hops hops S.Rel ?_ n p q hR
  intro p q hpq
  unfold StepOK
  cases hc : chase S.b1 hops p with
  | none =>
    cases hc2 : chase S.b2 hops q with
    | none => trivial
    | some y =>
      obtain ⟨x, hx, _⟩ := chase_bwd hl hops p q y hpq hc2
      rw [hx] at hc; cases hc
  | some x =>
    obtain ⟨y, hy, hr⟩ := chase_fwd hl hops p q x hpq hc
    rw [hy]
    simp only
    obtain ⟨j, hj, hrj⟩ := Setting.chase_some_node S.b1 hops p x hc
    have hn := nodeRel_of_rel hl hr
    unfold NodeRel at hn
    rw [hj] at hn
    cases h2 : S.b2.node y with
    | none => rw [h2] at hn; exact hn.elim
    | some c =>
      rw [h2] at hn
      obtain ⟨hs, _, _⟩ := hn
      simp only [hj]
      unfold NodesOK
      unfold ShapeEq at hs
      split
      · rename_i k1 k2
        refine ⟨hs, fun k hk => ?_⟩
        rcases hr with ⟨rfl, hd⟩ | ⟨t, ht, rfl, rfl⟩
        · exact Or.inl ⟨rfl, (hl.hdomC x _ hd hj hrj).1 _ rfl k hk⟩
        · exact Or.inr ⟨t ++ [k], (hl.hcopyC t _ ht hj hrj).1 _ rfl k hk, ext_child _ _ _, ext_child _ _ _⟩
      · rename_i x1 x2
        refine ⟨hs, fun i _ => ?_⟩
        rcases hr with ⟨rfl, hd⟩ | ⟨t, ht, rfl, rfl⟩
        · exact Or.inl ⟨rfl, (hl.hdomC x _ hd hj hrj).2 _ rfl i⟩
        · exact Or.inr ⟨t ++ [toString i], (hl.hcopyC t _ ht hj hrj).2 _ rfl i, ext_child _ _ _, ext_child _ _ _⟩
      · rename_i hno hna
        split at hs
        · exact (hno _ _ rfl rfl).elim
        · exact (hna _ _ rfl rfl).elim
        · exact hs

end MSetting
end Proofs.ImportMove
