import Verif.Model.Names
import Verif.Proofs.JsonLemmas

/-!
  Lemmas on the model of `uniqifyName` (Verif/Model/Names.lean): what `search` returns, why a
  returned candidate differs from the requested name, and the pigeonhole argument for termination.
-/

namespace Proofs.Names
open _root_.Names

theorem knownFold_nil (x : Ext) (c : String) : knownFold x [] c = false := rfl

/-- a name returned by the search is unknown -/
theorem search_some_unknown (known : String → Bool) (base : String) :
    ∀ (fuel i : Nat) (u : String), search known base fuel i = some u → known u = false := by
  intro fuel
  induction fuel with
  | zero => intro i u h; simp [search] at h
  | succ n ih =>
    intro i u h
    simp only [search] at h
    split at h
    · exact ih _ _ h
    · rename_i hk
      cases h
      simpa using hk

/-- a name returned by the search is one of the candidates -/
theorem search_some_candidate (known : String → Bool) (base : String) :
    ∀ (fuel i : Nat) (u : String), search known base fuel i = some u → ∃ j, u = candidate base j := by
  intro fuel
  induction fuel with
  | zero => intro i u h; simp [search] at h
  | succ n ih =>
    intro i u h
    simp only [search] at h
    split at h
    · exact ih _ _ h
    · cases h; exact ⟨i, rfl⟩

/-- a search that runs out of fuel has seen only known candidates -/
theorem search_none_known (known : String → Bool) (base : String) :
    ∀ (fuel i : Nat), search known base fuel i = none → ∀ j, j < fuel → known (candidate base (i + j)) = true := by
  intro fuel
  induction fuel with
  | zero => intro i _ j hj; omega
  | succ n ih =>
    intro i h j hj
    simp only [search] at h
    split at h
    · rename_i hk
      cases j with
      | zero => simpa using hk
      | succ j =>
        have := ih (i + 1) h j (by omega)
        rwa [show i + (j + 1) = i + 1 + j by omega]
    · cases h

theorem candidate_length_ge (base : String) (i : Nat) : base.length ≤ (candidate base i).length := by
  unfold candidate
  split
  · exact Nat.le_refl _
  · rw [String.length_append]; omega

/-- every candidate built on `name ++ "OAIGen"` is longer than `name`, hence different from it -/
theorem candidate_ne (name : String) (i : Nat) : candidate (name ++ "OAIGen") i ≠ name := by
  intro h
  have h1 := candidate_length_ge (name ++ "OAIGen") i
  rw [h, String.length_append] at h1
  have : "OAIGen".length = 6 := by decide
  omega

/-- the three exits of `uniqifyName` -/
theorem uniqifyName_ok_cases (f : Facts) (x : Ext) (defs : List String) (name : String) (fuel : Nat)
    (r : String × Bool) (h : uniqifyName f x defs name fuel = .ok r) :
    let start : String × Bool := if name = "" then ("oaiGen", true) else (name, false)
    (r = start ∧ (defs = [] ∨ knownFold x defs start.1 = false)) ∨
    (∃ u, r = (u, true) ∧
      search (if f.uniqifyCaseInsensitive then knownFold x defs else knownExact defs)
        (start.1 ++ "OAIGen") fuel 0 = some u) := by
  intro start
  have e : uniqifyName f x defs name fuel =
      if defs.isEmpty then .ok start
      else if !knownFold x defs start.1 then .ok start
      else match search (if f.uniqifyCaseInsensitive then knownFold x defs else knownExact defs)
          (start.1 ++ "OAIGen") fuel 0 with
        | some u => .ok (u, true)
        | none => .outOfFuel := rfl
  rw [e] at h
  clear e
  generalize start = st at h ⊢
  by_cases he : defs.isEmpty = true
  · rw [if_pos he] at h
    cases h
    exact .inl ⟨rfl, .inl (by simpa using he)⟩
  · rw [if_neg he] at h
    by_cases hk : (!knownFold x defs st.1) = true
    · rw [if_pos hk] at h
      cases h
      exact .inl ⟨rfl, .inr (by simpa using hk)⟩
    · rw [if_neg hk] at h
      split at h
      · rename_i u hs
        cases h
        exact .inr ⟨u, rfl, hs⟩
      · cases h

/-- the only way to run out of fuel is a search that found nothing -/
theorem uniqifyName_outOfFuel (f : Facts) (x : Ext) (defs : List String) (name : String) (fuel : Nat)
    (h : uniqifyName f x defs name fuel = .outOfFuel) :
    search (if f.uniqifyCaseInsensitive then knownFold x defs else knownExact defs)
      ((if name = "" then ("oaiGen", true) else (name, false) : String × Bool).1 ++ "OAIGen") fuel 0 = none := by
  unfold uniqifyName at h
  simp only at h
  generalize (if name = "" then ("oaiGen", true) else (name, false) : String × Bool) = st at h ⊢
  by_cases he : defs.isEmpty = true
  · rw [if_pos he] at h; cases h
  · rw [if_neg he] at h
    by_cases hk : (!knownFold x defs st.1) = true
    · rw [if_pos hk] at h; cases h
    · rw [if_neg hk] at h
      split at h
      · cases h
      · assumption

/-- pigeonhole: `n + 1` values with pairwise different keys cannot all have their key among `n` keys -/
theorem pigeonhole {α β} [DecidableEq β] (keys : List β) (c : Nat → α) (key : α → β)
    (hinj : ∀ i j, i ≤ keys.length → j ≤ keys.length → key (c i) = key (c j) → i = j)
    (hall : ∀ j, j ≤ keys.length → key (c j) ∈ keys) : False := by
  have hnd : ((List.range (keys.length + 1)).map fun j => key (c j)).Nodup := by
    refine List.pairwise_map.2 (List.Pairwise.imp_of_mem ?_ List.nodup_range)
    intro i j hi hj hne e
    simp only [List.mem_range] at hi hj
    exact hne (hinj i j (by omega) (by omega) e)
  have hsub : ((List.range (keys.length + 1)).map fun j => key (c j)) ⊆ keys := by
    intro b hb
    simp only [List.mem_map, List.mem_range] at hb
    obtain ⟨j, hj, rfl⟩ := hb
    exact hall j (by omega)
  have := hnd.length_le_of_subset hsub
  simp only [List.length_map, List.length_range] at this
  omega

theorem knownFold_true (x : Ext) (defs : List String) (c : String) (h : knownFold x defs c = true) :
    x.fold c ∈ defs.map x.fold := by
  unfold knownFold at h
  simp only [List.any_eq_true, beq_iff_eq] at h
  obtain ⟨k, hk, e⟩ := h
  exact e ▸ List.mem_map_of_mem hk

/-- with enough fuel and candidates of pairwise different fold keys the case-insensitive search succeeds -/
theorem search_fold_ne_none (x : Ext) (defs : List String) (base : String) (fuel : Nat)
    (hfuel : fuel ≥ defs.length + 1)
    (hinj : ∀ i j, i ≤ defs.length → j ≤ defs.length →
      x.fold (candidate base i) = x.fold (candidate base j) → i = j) :
    search (knownFold x defs) base fuel 0 ≠ none := by
  intro h
  have hk := search_none_known _ _ _ _ h
  apply pigeonhole (defs.map x.fold) (candidate base) x.fold
  · simpa using hinj
  · intro j hj
    simp only [List.length_map] at hj
    have := hk j (by omega)
    rw [Nat.zero_add] at this
    exact knownFold_true x defs _ this

end Proofs.Names
