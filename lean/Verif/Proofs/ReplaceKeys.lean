import Verif.Model.Replace
import Verif.Proofs.Pointer

/-!
  C04 (mechanism 2 of the anchors): every schema key the analyzer hands out resolves, through the walk
  `internal/flatten/replace` performs (`getPointerFromKey` + the switch on the dynamic Go type of what
  is found), to that very schema *with a schema kind*, so the three rewrite primitives succeed on it.

  `KRes d q k`: the position `q` is reached from the document along its token path, `Replace.walk`
  assigns it the kind `k`, and its node has distinct keys.  The lemmas follow the traversal
  `Spec.Index.allSchemas` (the one C12 proves the analyzer's schema index equal to).
-/

namespace ReplaceKeys
open J Spec.Index IndexProof PointerProof Replace

theorem walk_snoc (k0 : Kind) (d : J) (toks : List String) (t : String) :
    walk k0 d (toks ++ [t]) =
      (walk k0 d toks).bind fun jk => (Spec.Pointer.step jk.1 t).map fun c => (c, childKind jk.2 jk.1 t) := by
  induction toks generalizing k0 d with
  | nil =>
    simp only [List.nil_append, walk, Option.bind_some]
    cases Spec.Pointer.step d t <;> simp [walk]
  | cons a as ih =>
    simp only [List.cons_append, walk]
    cases Spec.Pointer.step d a with
    | none => simp
    | some c => simpa using ih (childKind k0 d a) c

theorem walk_get (k0 : Kind) (d : J) (toks : List String) :
    (walk k0 d toks).map (·.1) = Spec.Pointer.get d toks := by
  induction toks generalizing k0 d with
  | nil => simp [walk, Spec.Pointer.get]
  | cons a as ih =>
    simp only [walk, Spec.Pointer.get]
    cases Spec.Pointer.step d a with
    | none => simp
    | some c => simpa using ih (childKind k0 d a) c

section
variable (P : J → Prop)
  (hobj : ∀ kvs, P (.obj kvs) → (kvs.map (·.1)).Nodup ∧ ∀ kv ∈ kvs, P kv.2)
  (harr : ∀ xs, P (.arr xs) → ∀ x ∈ xs, P x)

def KRes (d : J) (q : Pos) (k : Kind) : Prop := walk .swagger d q.1 = some (q.2, k) ∧ P q.2

include hobj in
theorem kres_obj_child {d : J} {toks : List String} {kvs : List (String × J)} {k : Kind}
    (h : KRes P d (toks, .obj kvs) k) {kv : String × J} (hkv : kv ∈ kvs) :
    KRes P d (toks ++ [kv.1], kv.2) (childKind k (.obj kvs) kv.1) := by
  obtain ⟨hn, hp⟩ := hobj kvs h.2
  refine ⟨?_, hp kv hkv⟩
  show walk .swagger d (toks ++ [kv.1]) = _
  rw [walk_snoc, h.1]
  simp only [Option.bind_some, Spec.Pointer.step, lookup_of_mem hn hkv, Option.map_some]

include harr in
theorem kres_arr_child {d : J} {toks : List String} {xs : List J} {k : Kind}
    (h : KRes P d (toks, .arr xs) k) {n : Nat} {x : J} (hx : xs[n]? = some x) :
    KRes P d (toks ++ [toString n], x) (childKind k (.arr xs) (toString n)) := by
  refine ⟨?_, harr xs h.2 x (List.mem_of_getElem? hx)⟩
  show walk .swagger d (toks ++ [toString n]) = _
  rw [walk_snoc, h.1]
  simp only [Option.bind_some, Spec.Pointer.step, natOfDigits_toString, hx, Option.map_some]

include hobj in
theorem kres_get? {d : J} {toks : List String} {j : J} {k : Kind} (h : KRes P d (toks, j) k) {key : String} {v : J}
    (hv : j.get? key = some v) : KRes P d (toks ++ [key], v) (childKind k j key) := by
  cases j with
  | obj kvs => exact kres_obj_child P hobj h (kv := (key, v)) (mem_of_lookup hv)
  | _ => simp [J.get?] at hv

/-! ### kinds of the children of a schema -/

/-- what the invariant says about a schema position: a schema kind, and `notPtr` only under `not` -/
def SK (toks : List String) (k : Kind) : Prop :=
  isSchemaKind k = true ∧ (k = .notPtr → toks.getLast? = some "not")

theorem sk_schemaVal (toks : List String) : SK toks .schemaVal := ⟨rfl, by intro h; cases h⟩
theorem sk_schemaPtr (toks : List String) : SK toks .schemaPtr := ⟨rfl, by intro h; cases h⟩

theorem childKind_map {k : Kind} (hk : isSchemaKind k = true) (j : J) {t : String}
    (ht : mapKeywords.contains t = true) : childKind k j t = .schemaMap := by
  have ht' : t = "definitions" ∨ t = "properties" ∨ t = "patternProperties" := by
    simpa [mapKeywords] using ht
  have hc : (t = "properties" ∨ t = "patternProperties" ∨ t = "definitions") := by
    rcases ht' with h | h | h <;> simp [h]
  cases k <;> simp [isSchemaKind] at hk <;> simp [childKind, hc]

theorem childKind_arr {k : Kind} (hk : isSchemaKind k = true) (j : J) {t : String}
    (ht : arrKeywords.contains t = true) : childKind k j t = .schemaArr := by
  have ht' : t = "allOf" ∨ t = "anyOf" ∨ t = "oneOf" := by simpa [arrKeywords] using ht
  rcases ht' with h | h | h <;> subst h <;> cases k <;> simp [isSchemaKind] at hk <;> simp [childKind]

theorem childKind_not {k : Kind} (hk : isSchemaKind k = true) (j : J) : childKind k j "not" = .notPtr := by
  cases k <;> simp [isSchemaKind] at hk <;> simp [childKind]

theorem childKind_addl {k : Kind} (hk : isSchemaKind k = true) (j : J) {t : String}
    (ht : t = "additionalProperties" ∨ t = "additionalItems") (m : List (String × J)) (hg : j.get? t = some (.obj m)) :
    childKind k j t = .schemaOrBool := by
  rcases ht with h | h <;> subst h <;> cases k <;> simp [isSchemaKind] at hk <;> simp [childKind, hg]

theorem childKind_items_obj {k : Kind} (hk : isSchemaKind k = true) (j : J) (m : List (String × J))
    (hg : j.get? "items" = some (.obj m)) : childKind k j "items" = .schemaOrArray := by
  cases k <;> simp [isSchemaKind] at hk <;> simp [childKind, hg]

theorem childKind_items_arr {k : Kind} (hk : isSchemaKind k = true) (j : J) (xs : List J)
    (hg : j.get? "items" = some (.arr xs)) : childKind k j "items" = .schemaArr := by
  cases k <;> simp [isSchemaKind] at hk <;> simp [childKind, hg]

/-- sharper version of `kidOf_cases`: which keyword contributes which positions -/
theorem kidOf_cases' (toks : List String) (k : String) (v : J) :
    (mapKeywords.contains k = true ∧ ∃ m, v = .obj m ∧ kidOf toks k v = mapKids (toks ++ [k]) m) ∨
    ((arrKeywords.contains k = true ∨ k = "items") ∧ ∃ xs, v = .arr xs ∧ kidOf toks k v = arrKids (toks ++ [k]) 0 xs) ∨
    ((k = "not" ∨ k = "additionalProperties" ∨ k = "additionalItems" ∨ k = "items") ∧
        ∃ m, v = .obj m ∧ kidOf toks k v = schemasAt (toks ++ [k]) v) ∨
    kidOf toks k v = [] := by
  unfold kidOf
  by_cases h1 : mapKeywords.contains k = true
  · rw [if_pos h1]
    cases v with
    | obj m => left; exact ⟨h1, m, rfl, rfl⟩
    | _ => right; right; right; rfl
  · rw [if_neg h1]
    by_cases h2 : arrKeywords.contains k = true
    · rw [if_pos h2]
      cases v with
      | arr xs => right; left; exact ⟨Or.inl h2, xs, rfl, rfl⟩
      | _ => right; right; right; rfl
    · rw [if_neg h2]
      by_cases h3 : oneKeywords.contains k = true
      · rw [if_pos h3]
        have hk : k = "not" ∨ k = "additionalProperties" ∨ k = "additionalItems" := by
          simpa [oneKeywords] using h3
        cases v with
        | obj m =>
          right; right; left
          exact ⟨by rcases hk with h | h | h <;> simp [h], m, rfl, rfl⟩
        | _ => right; right; right; simp [schemasAt]
      · rw [if_neg h3]
        by_cases h4 : k = "items"
        · subst h4
          rw [if_pos rfl]
          cases v with
          | arr xs => right; left; exact ⟨Or.inr rfl, xs, rfl, by simp [schemasAt]⟩
          | obj m => right; right; left; exact ⟨by simp, m, rfl, by simp⟩
          | _ => right; right; right; simp [schemasAt]
        · rw [if_neg h4]; simp

include hobj harr in
/-- every schema at or below a schema position of schema kind is reached with a schema kind -/
theorem kres_schemasAt (d : J) : ∀ (j : J) (toks : List String) (k : Kind), KRes P d (toks, j) k → SK toks k →
    ∀ p ∈ schemasAt toks j, ∃ k', KRes P d p k' ∧ SK p.1 k' := by
  intro j
  induction j using jStrongInduction with
  | h j ih =>
    intro toks k hr hk p hp
    cases j with
    | obj kvs =>
      rw [schemasAt, List.mem_cons, kids_flatMap, List.mem_flatMap] at hp
      rcases hp with rfl | ⟨kv, hkv, hp⟩
      · exact ⟨k, hr, hk⟩
      · have hc := kres_obj_child P hobj hr hkv
        have hs := sizeOf_obj_mem hkv
        have hn := (hobj kvs hr.2).1
        have hget : (J.obj kvs).get? kv.1 = some kv.2 := lookup_of_mem hn hkv
        rcases kidOf_cases' toks kv.1 kv.2 with ⟨hkw, m, hm, e⟩ | ⟨hkw, xs, hx, e⟩ | ⟨hkw, m, hm, e⟩ | e
        · -- a map of schemas
          rw [e, mapKids_flatMap, List.mem_flatMap] at hp
          obtain ⟨kv', hkv', hp⟩ := hp
          rw [childKind_map hk.1 _ hkw, hm] at hc
          rw [hm] at hs
          have hc' := kres_obj_child P hobj hc hkv'
          exact ih kv'.2 (Nat.lt_trans (sizeOf_obj_mem hkv') hs) _ _ hc' (sk_schemaVal _) p hp
        · -- an array of schemas
          rw [e, arrKids_flatMap, List.mem_flatMap] at hp
          obtain ⟨xn, hxn, hp⟩ := hp
          have hck : childKind k (.obj kvs) kv.1 = .schemaArr := by
            rcases hkw with h | h
            · exact childKind_arr hk.1 _ h
            · rw [h] at hget ⊢
              exact childKind_items_arr hk.1 _ xs (hx ▸ hget)
          rw [hck, hx] at hc
          rw [hx] at hs
          have hgetx := List.mem_zipIdx_iff_getElem?.1 hxn
          have hc' := kres_arr_child P harr hc hgetx
          have hck' : childKind Kind.schemaArr (arr xs) (toString xn.2) = .schemaVal := rfl
          rw [hck'] at hc'
          exact ih xn.1 (Nat.lt_trans (sizeOf_arr_mem (List.mem_of_getElem? hgetx)) hs)
            (toks ++ [kv.1] ++ [toString xn.2]) .schemaVal hc' (sk_schemaVal _) p hp
        · -- a single schema behind a pointer
          rw [e] at hp
          have hck : SK (toks ++ [kv.1]) (childKind k (.obj kvs) kv.1) := by
            rcases hkw with h | h | h | h
            · rw [h, childKind_not hk.1]; exact ⟨rfl, fun _ => by simp⟩
            · rw [childKind_addl hk.1 _ (Or.inl h) m (hm ▸ hget)]; exact ⟨rfl, by intro h'; cases h'⟩
            · rw [childKind_addl hk.1 _ (Or.inr h) m (hm ▸ hget)]; exact ⟨rfl, by intro h'; cases h'⟩
            · rw [h] at hget ⊢
              rw [childKind_items_obj hk.1 _ m (hm ▸ hget)]; exact ⟨rfl, by intro h'; cases h'⟩
          exact ih kv.2 hs _ _ hc hck p hp
        · rw [e] at hp; simp at hp
    | _ => simp [schemasAt] at hp

/-! ### holders -/

include hobj in
theorem kres_getObj {d : J} {toks : List String} {j : J} {k : Kind} (h : KRes P d (toks, j) k) {key : String}
    {kv : String × J} (hkv : kv ∈ j.getObj key) :
    ∃ m, j.get? key = some (.obj m) ∧
      KRes P d (toks ++ [key, kv.1], kv.2) (childKind (childKind k j key) (.obj m) kv.1) := by
  unfold J.getObj at hkv
  split at hkv
  · rename_i kvs hget
    refine ⟨kvs, hget, ?_⟩
    have := kres_obj_child P hobj (kres_get? P hobj h hget) hkv
    simpa using this
  · simp at hkv

include hobj harr in
theorem kres_getArr {d : J} {toks : List String} {j : J} {k : Kind} (h : KRes P d (toks, j) k) {key : String}
    {ip : Nat × J} (hip : ip ∈ Spec.Index.indexed (j.getArr key)) :
    ∃ xs, j.get? key = some (.arr xs) ∧
      KRes P d (toks ++ [key, toString ip.1], ip.2) (childKind (childKind k j key) (.arr xs) (toString ip.1)) := by
  unfold Spec.Index.indexed at hip
  obtain ⟨xn, hxn, rfl⟩ := List.mem_map.1 hip
  unfold J.getArr at hxn
  split at hxn
  · rename_i xs hget
    refine ⟨xs, hget, ?_⟩
    have := kres_arr_child P harr (kres_get? P hobj h hget) (List.mem_zipIdx_iff_getElem?.1 hxn)
    simpa using this
  · simp at hxn

theorem kres_root {d : J} (hd : P d) : KRes P d ([], d) .swagger := ⟨rfl, hd⟩

include hobj in
theorem kres_pathItem {d : J} (hd : P d) : ∀ kv ∈ Doc.pathItems d, KRes P d (["paths", kv.1], kv.2) .pathItem := by
  intro kv hkv
  have hm := List.mem_filter.1 hkv
  obtain ⟨m, _, h⟩ := kres_getObj P hobj (kres_root P hd) hm.1
  have hk : childKind (childKind .swagger d "paths") (.obj m) kv.1 = .pathItem := by
    simp [childKind, hm.2]
  rw [hk] at h
  simpa using h

theorem isMethodKey_of_mem {m : String} (h : m ∈ Doc.methods) : Doc.isMethodKey m = true := by
  simp [Doc.isMethodKey, h]

include hobj in
theorem kres_op {d : J} (hd : P d) : ∀ o ∈ operations d, KRes P d o.2.2 .operation := by
  intro o ho
  obtain ⟨kv, hkv, ho⟩ := List.mem_flatMap.1 ho
  obtain ⟨m, hmm, hm⟩ := List.mem_filterMap.1 ho
  cases hget : kv.2.get? m with
  | none => simp [hget] at hm
  | some op =>
    simp only [hget, Option.map_some, Option.some.injEq] at hm
    subst hm
    have h := kres_get? P hobj (kres_pathItem P hobj hd kv hkv) hget
    have hk : childKind .pathItem kv.2 m = .operation := by simp [childKind, isMethodKey_of_mem hmm]
    rw [hk] at h
    simpa using h

include hobj harr in
theorem kres_paramsOf {d : J} {holder : Pos} {k : Kind} (h : KRes P d holder k)
    (hk : ∀ j, childKind k j "parameters" = .paramArr) : ∀ q ∈ paramsOf holder, KRes P d q .param := by
  intro q hq
  obtain ⟨ip, hip, rfl⟩ := List.mem_map.1 hq
  obtain ⟨xs, _, h'⟩ := kres_getArr P hobj harr (toks := holder.1) (j := holder.2) h hip
  rw [hk] at h'
  exact h'

include hobj harr in
theorem kres_listedParams {d : J} (hd : P d) : ∀ q ∈ listedParams d, KRes P d q .param := by
  intro q hq
  rcases List.mem_append.1 hq with hq | hq
  · obtain ⟨kv, hkv, hq⟩ := List.mem_flatMap.1 hq
    exact kres_paramsOf P hobj harr (kres_pathItem P hobj hd kv hkv) (by intro j; simp [childKind, Doc.isMethodKey, Doc.methods]) q hq
  · obtain ⟨o, ho, hq⟩ := List.mem_flatMap.1 hq
    exact kres_paramsOf P hobj harr (kres_op P hobj hd o ho) (by intro j; simp [childKind]) q hq

include hobj in
theorem kres_sharedParams {d : J} (hd : P d) : ∀ q ∈ sharedParams d, KRes P d q .param := by
  intro q hq
  obtain ⟨kv, hkv, rfl⟩ := List.mem_map.1 hq
  obtain ⟨m, _, h⟩ := kres_getObj P hobj (kres_root P hd) hkv
  have hk : childKind (childKind .swagger d "parameters") (.obj m) kv.1 = .param := by simp [childKind]
  rw [hk] at h
  simpa using h

include hobj in
theorem kres_opResponses {d : J} (hd : P d) : ∀ q ∈ opResponses d, KRes P d q .response := by
  intro q hq
  obtain ⟨o, ho, hq⟩ := List.mem_flatMap.1 hq
  obtain ⟨kv, hkv, rfl⟩ := List.mem_map.1 hq
  have hm := List.mem_filter.1 hkv
  obtain ⟨m, _, h⟩ := kres_getObj P hobj (toks := o.2.2.1) (j := o.2.2.2) (kres_op P hobj hd o ho) hm.1
  have hrk : (kv.1 = "default" ∨ Doc.isCodeKey kv.1 = true) := by
    simpa [isResponseKey] using hm.2
  have hk : childKind (childKind .operation o.2.2.2 "responses") (.obj m) kv.1 = .response := by
    simp [childKind, hrk]
  rw [hk] at h
  simpa using h

include hobj in
theorem kres_sharedResponses {d : J} (hd : P d) : ∀ q ∈ sharedResponses d, KRes P d q .response := by
  intro q hq
  obtain ⟨kv, hkv, rfl⟩ := List.mem_map.1 hq
  obtain ⟨m, _, h⟩ := kres_getObj P hobj (kres_root P hd) hkv
  have hk : childKind (childKind .swagger d "responses") (.obj m) kv.1 = .response := by simp [childKind]
  rw [hk] at h
  simpa using h

include hobj harr in
theorem kres_schemaOf {d : J} {q : Pos} {k : Kind} (h : KRes P d q k)
    (hk : ∀ j, childKind k j "schema" = .schemaPtr) :
    ∀ p ∈ Spec.Index.schemaOf q, ∃ k', KRes P d p k' ∧ SK p.1 k' := by
  intro p hp
  unfold Spec.Index.schemaOf at hp
  split at hp
  · rename_i s hs
    have h' := kres_get? P hobj (toks := q.1) (j := q.2) h hs
    rw [hk] at h'
    exact kres_schemasAt P hobj harr d s _ _ h' (sk_schemaPtr _) p hp
  · simp at hp

include hobj harr in
/-- every indexed schema is reached by `Replace.walk` with a schema kind -/
theorem kres_allSchemas {d : J} (hd : P d) : ∀ p ∈ allSchemas d, ∃ k, KRes P d p k ∧ SK p.1 k := by
  intro p hp
  unfold allSchemas at hp
  rcases List.mem_append.1 hp with hp | hp
  · rcases List.mem_append.1 hp with hp | hp
    · obtain ⟨q, hq, hp⟩ := List.mem_flatMap.1 hp
      have hq := (List.mem_filter.1 hq).1
      have hq' : KRes P d q .param := by
        rcases List.mem_append.1 hq with hq | hq
        · exact kres_listedParams P hobj harr hd q hq
        · exact kres_sharedParams P hobj hd q hq
      exact kres_schemaOf P hobj harr hq' (by intro j; simp [childKind]) p hp
    · obtain ⟨q, hq, hp⟩ := List.mem_flatMap.1 hp
      have hq' : KRes P d q .response := by
        rcases List.mem_append.1 hq with hq | hq
        · exact kres_opResponses P hobj hd q hq
        · exact kres_sharedResponses P hobj hd q hq
      exact kres_schemaOf P hobj harr hq' (by intro j; simp [childKind]) p hp
  · obtain ⟨kv, hkv, hp⟩ := List.mem_flatMap.1 hp
    obtain ⟨m, _, h⟩ := kres_getObj P hobj (kres_root P hd) hkv
    have hk : childKind (childKind .swagger d "definitions") (.obj m) kv.1 = .schemaVal := by simp [childKind]
    rw [hk] at h
    exact kres_schemasAt P hobj harr d kv.2 _ _ (by simpa using h) (sk_schemaVal _) p hp

end

/-! ### the primitives succeed where the walk does -/

theorem setAt_of_get (d : J) (toks : List String) (j v : J) (h : Spec.Pointer.get d toks = some j) :
    ∃ d', setAt d toks v = some d' := by
  induction toks generalizing d with
  | nil => exact ⟨v, rfl⟩
  | cons t ts ih =>
    simp only [Spec.Pointer.get] at h
    cases hs : Spec.Pointer.step d t with
    | none => simp [hs] at h
    | some c =>
      simp only [hs, Option.bind_some] at h
      obtain ⟨c', hc'⟩ := ih c h
      cases d with
      | obj kvs =>
        simp only [Spec.Pointer.step] at hs
        exact ⟨.obj (setKv t c' kvs), by simp only [setAt, hs, hc', Option.map_some]⟩
      | arr xs =>
        simp only [Spec.Pointer.step] at hs
        cases hn : Spec.Pointer.natOfDigits t.toList with
        | none => simp [hn] at hs
        | some i =>
          simp only [hn, Option.bind_some] at hs
          exact ⟨.arr (xs.set i c'), by simp only [setAt, hn, hs, hc', Option.map_some]⟩
      | _ => simp [Spec.Pointer.step] at hs

theorem get_of_walk {k0 : Kind} {d : J} {toks : List String} {j : J} {k : Kind}
    (h : walk k0 d toks = some (j, k)) : Spec.Pointer.get d toks = some j := by
  rw [← walk_get k0, h]; rfl

end ReplaceKeys
