import Verif.Proofs.Move
import Verif.Proofs.FlattenBase

/-!
  The naming move of `Proofs.Move` is what the model function `Flatten.nameWith` (one iteration of
  `InlineSchemaNamer.Name`) does to the document when no `$ref` has to be re-targeted: it then returns exactly the
  document `Setting.d2` the move theorem speaks about.
-/

namespace Proofs.MoveModel
open J Replace Flatten OutcomeM Proofs.Move Proofs.MoveBase

/-- no `$ref` of the document depends on the place that is being named: the loop of `Name` over the dependents
    rewrites nothing (every `$ref` resolves, through `DeepestRef`, to something else than the key; one that
    resolves to the new definition already designates a top-level definition) -/
def NoDependents (fc : Facts) (x : Ext) (key target : String) (d : J) : Prop :=
  ∀ kv ∈ allRefs (Analyzer.analyze fc d),
    ∃ r, deepestRef x d (64 + (allRefs (Analyzer.analyze fc d)).length) kv.2 = .ok r ∧
      r.1 ≠ key ∧ (r.1 ≠ target ∨ Str.dir kv.2 = "#/definitions")

theorem foldlM_idle {α : Type} (f : J → α → Outcome J) (d : J) :
    ∀ (l : List α), (∀ a ∈ l, f d a = .ok d) → l.foldlM f d = .ok d := by
  intro l
  induction l with
  | nil => intro _; rfl
  | cons a l ih =>
    intro h
    simp only [List.foldlM_cons]
    rw [h a List.mem_cons_self]
    exact ih (fun b hb => h b (List.mem_cons_of_mem _ hb))

theorem getNR_setNR_self (k : String) (v : NewRef) (m : List (String × NewRef)) : getNR k (setNR k v m) = some v := by
  induction m with
  | nil => simp [setNR, getNR]
  | cons kv rest ih =>
    obtain ⟨k', v'⟩ := kv
    simp only [setNR]
    by_cases hk : k' = k
    · simp [hk, getNR]
    · simp [hk, getNR, ih]

/-- `rewriteSchemaToRef` is the `setAt` of the setting (as in `C01.rewriteSchemaToRef_is_setAt`) -/
theorem rewrite_is_setAt (d : J) (key ref : String) (d1 : J) (h : Replace.rewriteSchemaToRef d key ref = .ok d1) :
    Replace.setAt d (Replace.keyTokens key) (Replace.refNode ref) = some d1 := by
  unfold Replace.rewriteSchemaToRef at h
  simp only at h
  split at h
  · cases h
  · split at h
    · cases h
    · split at h
      · split at h
        · rename_i d' hs; cases h; exact hs
        · cases h
      · cases h

/-- when `nameWith` succeeds on the schema of a setting, under the name and with the `$ref` string of that
    setting, and nothing depends on the place, the document it returns is the `d2` of the setting -/
theorem nameWith_is_the_move (S : Setting) (fc : Facts) (x : Ext) (o : Opts) (st st' : St) (key : String)
    (parts : List String) (name : String)
    (h : nameWith fc x o st key (.obj S.sch) parts name = .ok st')
    (hdoc : st.doc = .obj S.kvs) (hkey : Replace.keyTokens key = S.toks)
    (hloc : S.loc = .str (genLocation parts))
    (hname : ∀ nr, getNR key st'.ctx.newRefs = some nr → nr.newName = S.n ∧ nr.path = Str.join ["#/definitions", S.n])
    (href : x.mkRef (Str.join ["#/definitions", S.n]) = some S.r)
    (hnodep : NoDependents fc x key (Str.join ["#/definitions", S.n]) S.d2) :
    st'.doc = S.d2 := by
  unfold nameWith at h
  obtain ⟨mangled, _, h⟩ := bind_eq_ok.1 h
  obtain ⟨⟨newName, isOAIGen⟩, _, h⟩ := bind_eq_ok.1 h
  obtain ⟨ref, hrefq, h⟩ := bind_eq_ok.1 h
  obtain ⟨d0, h1, h⟩ := bind_eq_ok.1 h
  obtain ⟨d3, h2, h⟩ := bind_eq_ok.1 h
  simp only [pure_eq_ok] at h
  subst h
  -- the name and the `$ref` string are those of the setting
  have hnn : newName = S.n := by
    have := (hname _ (by
      show getNR key (setNR key _ st.ctx.newRefs) = some _
      exact getNR_setNR_self _ _ _)).1
    exact this
  subst hnn
  have hr : ref = S.r := by
    unfold ask at hrefq
    rw [href] at hrefq
    cases hrefq; rfl
  subst hr
  -- the document after `RewriteSchemaToRef` is the `d1` of the setting
  have hd0 : d0 = S.d1 := by
    have := rewrite_is_setAt _ _ _ _ h1
    rw [hdoc, hkey, S.hset] at this
    cases this; rfl
  subst hd0
  -- the saved schema is the `saved` of the setting, so the document the loop starts from is `d2`
  have hsaved : (J.obj S.sch).set "x-go-gen-location" (.str (genLocation parts)) = S.saved := by
    unfold Setting.saved; rw [hloc]; rfl
  rw [hsaved] at h2
  show d3 = S.d2
  have hidle := foldlM_idle (fun d kv => do
      let r ← deepestRef x d (64 + (allRefs (Analyzer.analyze fc S.d2)).length) kv.2
      if r.1 ≠ key ∧ (r.1 ≠ Str.join ["#/definitions", S.n] ∨ Str.dir kv.2 = "#/definitions") then pure d
      else Replace.updateRef d kv.1 S.r) S.d2 (allRefs (Analyzer.analyze fc S.d2)) (by
    intro kv hkv
    obtain ⟨r, hr, hc⟩ := hnodep kv hkv
    simp only [hr]
    show (if _ then _ else _) = _
    rw [if_pos hc]; rfl)
  have : Outcome.ok d3 = Outcome.ok S.d2 := h2.symm.trans hidle
  cases this; rfl

end Proofs.MoveModel
