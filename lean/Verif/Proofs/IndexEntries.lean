import Verif.Properties.C11
import Verif.Properties.C12
import Verif.Properties.C04
import Verif.Model.Flatten
import Verif.Proofs.NameRun

/-!
  A bridge from the index theorems (C11, C12) to the step theorems of C01: what the schema reference index of the
  analyzer lists under a key is the `$ref` the document holds at the position the key designates.
-/

namespace Proofs.IndexEntries
open J Spec.Index

theorem mem_mapOf_mem (xs : List (String × J)) (kv : String × J) (h : kv ∈ Index.mapOf xs) : kv ∈ xs := by
  unfold Index.mapOf at h
  have key : ∀ (l acc : List (String × J)), kv ∈ l.foldl (fun acc kv => setKv kv.1 kv.2 acc) acc → kv ∈ acc ∨ kv ∈ l := by
    intro l
    induction l with
    | nil => intro acc h; exact Or.inl h
    | cons a rest ih =>
      intro acc h
      simp only [List.foldl_cons] at h
      rcases ih _ h with h' | h'
      · -- a member of `setKv a.1 a.2 acc` is `a` or a member of `acc`
        have : kv = (a.1, a.2) ∨ kv ∈ acc := by
          clear ih h
          induction acc with
          | nil => simp [setKv] at h'; exact Or.inl h'
          | cons b acc ihb =>
            obtain ⟨bk, bv⟩ := b
            simp only [setKv] at h'
            by_cases hk : bk = a.1
            · simp only [hk, if_true, List.mem_cons] at h'
              rcases h' with h' | h'
              · exact Or.inl h'
              · exact Or.inr (List.mem_cons_of_mem _ h')
            · simp only [hk, if_false, List.mem_cons] at h'
              rcases h' with h' | h'
              · exact Or.inr (by rw [h']; exact List.mem_cons_self)
              · rcases ihb h' with h'' | h''
                · exact Or.inl h''
                · exact Or.inr (List.mem_cons_of_mem _ h'')
        rcases this with h'' | h''
        · exact Or.inr (by rw [h'']; exact List.mem_cons_self)
        · exact Or.inl h''
      · exact Or.inr (List.mem_cons_of_mem _ h')
  rcases key xs [] h with h' | h'
  · cases h'
  · exact h'

/-- every entry of the analyzer's *schema* reference map: the key parses back to a token path at which the document
    holds a schema whose `$ref` is the string listed (well-formed documents with distinct object keys; names without a
    percent byte) -/
theorem schemaRef_entry (f : Facts) (hf : C11.FactsOK f) (d : J) (hwf : C11.WF d) (hn : C12.NodupKeys d)
    (hpk : ∀ kv ∈ d.getObj "paths", Doc.isPathKey kv.1 = true)
    (hplain : ∀ p ∈ allSchemas d, C04.PlainKey p.1)
    (kv : String × String) (h : kv ∈ Flatten.refMap (· = "schema") (Analyzer.analyze f d)) :
    ∃ a, Spec.Pointer.get d (Replace.keyTokens kv.1) = some a ∧ Doc.refStr a = kv.2 ∧ kv.2 ≠ "" := by
  unfold Flatten.refMap at h
  obtain ⟨e, he, hek⟩ := List.mem_filterMap.1 h
  have he' := mem_mapOf_mem _ _ he
  have hperm := C11.refs_exact f hf d hwf "schema" (allSchemas d) (by simp [refKinds])
  have he'' : e ∈ refsOf (allSchemas d) := hperm.mem_iff.1 (by simpa using he')
  unfold refsOf at he''
  obtain ⟨p, hp, hpe⟩ := List.mem_filterMap.1 he''
  split at hpe
  · rename_i hr
    cases hpe
    simp only at hek
    cases hek
    have hres := (C12.resolves d hn hpk p hp).2
    refine ⟨p.2, ?_, rfl, hr⟩
    show Spec.Pointer.get d (Replace.keyTokens (key p.1)) = some p.2
    rw [C04.keyTokens_key p.1 (hplain p hp)]
    exact hres
  · cases hpe

end Proofs.IndexEntries

namespace Proofs.IndexEntries
open Proofs.NameRun Proofs.RetargetFold Proofs.Move Proofs.MoveBase

/-- `EntryOK` for the schema entries of the reference map: what is left to assume is about the *strings* only (local
    `$ref`s which the table knows, at canonically spelled keys), no longer about what the document holds -/
theorem entryOK_schema (f : Facts) (hf : C11.FactsOK f) (d : J) (hwf : C11.WF d) (hn : C12.NodupKeys d)
    (hpk : ∀ kv ∈ d.getObj "paths", Doc.isPathKey kv.1 = true)
    (hplain : ∀ p ∈ Spec.Index.allSchemas d, C04.PlainKey p.1)
    (T : List (String × Spec.Meaning.Pos))
    (kv : String × String) (h : kv ∈ Flatten.refMap (· = "schema") (Analyzer.analyze f d))
    (hfo : Flatten.hasFragmentOnly kv.2 = true) (hT : ∃ qc, T.lookup kv.2 = some qc)
    (hc : AllCanon (Replace.keyTokens kv.1)) : EntryOK d T kv := by
  obtain ⟨a, ha, hr, hne⟩ := schemaRef_entry f hf d hwf hn hpk hplain kv h
  obtain ⟨qc, hq⟩ := hT
  exact ⟨a, qc, ha, hr, hne, hfo, hq, hc⟩

end Proofs.IndexEntries
