import Verif.Model.Fixer
import Verif.Spec.Fixer
import Verif.Proofs.JsonLemmas
import Verif.Proofs.ListLemmas

namespace Proofs.Fixer
open J Spec.Fixer

theorem fixDesc_eq_describe : Fixer.fixDesc = describe := by
  funext r
  rfl

theorem isResponseKey_eq : Fixer.isResponseKey = isResponseKey := rfl

/-- functor law of the generic traversal -/
theorem mapResponses_comp (g h : J → J) (d : J) :
    mapResponses g (mapResponses h d) = mapResponses (g ∘ h) d := by
  unfold mapResponses
  rw [mapObj_comp]
  apply mapObj_congr
  intro k v
  unfold atTop
  by_cases h1 : k = "paths"
  · simp only [h1, if_true]
    rw [mapObj_comp]; apply mapObj_congr; intro k2 v2
    unfold sel; split <;> try rfl
    rw [mapObj_comp]; apply mapObj_congr; intro k3 v3
    split <;> try rfl
    rw [mapObj_comp]; apply mapObj_congr; intro k4 v4
    split <;> try rfl
    rw [mapObj_comp]; apply mapObj_congr; intro k5 v5
    split <;> rfl
  · simp only [h1, if_false]
    by_cases h2 : k = "responses"
    · simp only [h2, if_true]
      rw [mapObj_comp]; rfl
    · simp only [h2, if_false]; rfl

theorem mapResponses_congr (g h : J → J) (d : J) (e : ∀ r, g r = h r) :
    mapResponses g d = mapResponses h d := by
  have : g = h := funext e
  rw [this]

/-- the model computes the expected document as soon as the visited methods are the seven -/
theorem fixDoc_eq_expected (ms : List String)
    (hms : ∀ k, ms.contains k = Doc.isMethodKey k) (d : J) :
    Fixer.fixDoc ms d = expected d := by
  unfold Fixer.fixDoc expected mapResponses
  rw [mapObj_comp]
  apply mapObj_congr
  intro k v
  by_cases h1 : k = "paths"
  · subst h1
    simp only [Fixer.fixPaths, Fixer.fixPathItem, Fixer.fixOp, Fixer.fixResponses, fixDesc_eq_describe,
      isResponseKey_eq, hms, atTop]
    simp [sel]
  · by_cases h2 : k = "responses"
    · subst h2
      simp [Fixer.fixShared, fixDesc_eq_describe, atTop, sel]
    · simp [h1, h2, atTop, sel]

theorem described_describe (r : J) (hr : r.isObj = true) : described (describe r) = true := by
  unfold describe
  split
  · assumption
  · unfold described
    have : (r.set "description" (.str "(empty)")).getStr "description" = "(empty)" := by
      unfold getStr; rw [get?_set_self _ _ _ hr]
    simp [this]

theorem describe_idem (r : J) : describe (describe r) = describe r := by
  by_cases hd : described r = true
  · simp [describe, hd]
  · by_cases hr : r.isObj = true
    · have h2 := described_describe r hr
      have e : describe r = r.set "description" (.str "(empty)") := by simp [describe, hd]
      rw [e] at h2 ⊢
      simp [describe, h2]
    · have : describe r = r := by
        unfold describe; split; rfl
        cases r <;> simp_all [J.set, isObj]
      rw [this, this]

/-- the response-level function of `mapResponses g` at each nesting level -/
def respF (g : J → J) : String → J → J := sel isResponseKey g
def opF (g : J → J) : String → J → J := sel (· = "responses") (mapObj (respF g))
def piF (g : J → J) : String → J → J := sel Doc.isMethodKey (mapObj (opF g))
def pathsF (g : J → J) : String → J → J := sel Doc.isPathKey (mapObj (piF g))

theorem atTop_paths (g : J → J) : atTop g "paths" = mapObj (pathsF g) := by
  simp [atTop, pathsF, piF, opF, respF]

theorem atTop_responses (g : J → J) : atTop g "responses" = mapObj (fun _ => g) := by
  simp [atTop]

/-- a key-preserving map commutes with a filter on keys -/
theorem filter_key_map (p : String → Bool) (F : String → J → J) (kvs : List (String × J)) :
    (kvs.map fun kv => (kv.1, F kv.1 kv.2)).filter (fun kv => p kv.1) =
      (kvs.filter fun kv => p kv.1).map fun kv => (kv.1, F kv.1 kv.2) := by
  rw [List.filter_map]; rfl

theorem opResponses_map (g : J → J) (op : J) :
    opResponses (mapObj (opF g) op) = (opResponses op).map g := by
  unfold opResponses
  rw [getObj_mapObj (opF g) (respF g) "responses" op (sel_pos _ _ _ (by simp))]
  rw [filter_key_map, List.map_map, List.map_map]
  apply List.map_congr_left
  intro kv hkv
  have := (List.mem_filter.mp hkv).2
  simp [respF, sel, this]

theorem pathItemOps_map (g : J → J) (pi : J) :
    pathItemOps (mapObj (piF g) pi) = (pathItemOps pi).map (mapObj (opF g)) := by
  unfold pathItemOps
  rw [List.map_filterMap]
  apply List.filterMap_congr'
  intro m hm
  rw [get?_mapObj]
  have : piF g m = mapObj (opF g) :=
    sel_pos _ _ _ (by simp [Doc.isMethodKey, hm])
  rw [this]

theorem pathItems_map (g : J → J) (d : J) :
    Doc.pathItems (mapResponses g d) =
      (Doc.pathItems d).map fun kv => (kv.1, mapObj (piF g) kv.2) := by
  unfold Doc.pathItems mapResponses
  rw [getObj_mapObj (atTop g) (pathsF g) "paths" d (atTop_paths g)]
  rw [filter_key_map]
  apply List.map_congr_left
  intro kv hkv
  have := (List.mem_filter.mp hkv).2
  simp [pathsF, sel, this]

/-- the response objects after `mapResponses g` are the images of the response objects before -/
theorem allResponses_map (g : J → J) (d : J) :
    allResponses (mapResponses g d) = (allResponses d).map g := by
  unfold allResponses
  rw [pathItems_map]
  have h1 : (mapResponses g d).getObj "responses" = (d.getObj "responses").map fun kv => (kv.1, g kv.2) := by
    unfold mapResponses
    exact getObj_mapObj (atTop g) (fun _ => g) "responses" d (atTop_responses g)
  rw [h1]
  simp only [List.map_append, List.map_map, List.flatMap_map, List.map_flatMap]
  congr 1
  apply List.flatMap_congr'
  intro kv _
  rw [pathItemOps_map, List.flatMap_map]
  apply List.flatMap_congr'
  intro op _
  exact opResponses_map g op

end Proofs.Fixer

namespace Proofs.Fixer
open J Spec.Fixer

theorem hasRefKey_set_description (r : J) (v : J) :
    Doc.hasRefKey (r.set "description" v) = Doc.hasRefKey r := by
  unfold Doc.hasRefKey
  rw [get?_set_ne _ _ _ _ (by decide)]

theorem blank_describe (r : J) : blank (describe r) = blank r := by
  by_cases hd : described r = true
  · simp [describe, hd]
  · have e : describe r = r.set "description" (.str "(empty)") := by simp [describe, hd]
    rw [e]
    have hd' : r.getStr "description" = "" ∧ Doc.hasRefKey r = false := by
      simp [described] at hd; exact hd
    by_cases hr : r.isObj = true
    · unfold blank
      rw [hasRefKey_set_description]
      have : (r.set "description" (.str "(empty)")).getStr "description" = "(empty)" := by
        unfold getStr; rw [get?_set_self _ _ _ hr]
      simp [hd'.1, hd'.2, this, erase_set_self]
    · have : r.set "description" (.str "(empty)") = r := by
        cases r <;> simp_all [J.set, isObj]
      rw [this]

end Proofs.Fixer
