import Verif.Model.Flatten

/-!
  C09 on the phase model: no Go panic is reachable in the modelled pipeline of Flatten.

  The model marks the run-time panics of the Go code as the outcome `.panic`.  The pipeline model had
  exactly one such site — `pr[0]` in `stripOAIGenForRef`, the first of the sorted parents of a
  definition that is about to be re-inlined; since the repair of that function (the first parent is
  searched for among the parents outside of the definition) no index expression is left that can
  fail.  Everything (the replace primitives, the classification, `DeepestRef`, the removal loop, the
  import loop, the strip loop) returns `ok`, an error, or runs out of fuel.
  `NP x` = "x is not a panic"; the lemmas follow the definitions of `Verif/Model/Flatten.lean`.
-/

namespace Proofs.NoPanic
open J Flatten

def NP {α : Type} (x : Outcome α) : Prop := x.isPanic = false

theorem NP.ok {α : Type} (a : α) : NP (Outcome.ok a) := rfl
theorem NP.pure {α : Type} (a : α) : NP (pure a : Outcome α) := rfl
theorem NP.err {α : Type} (e : String) : NP (Outcome.err e : Outcome α) := rfl
theorem NP.oof {α : Type} : NP (Outcome.outOfFuel : Outcome α) := rfl

theorem NP.bind {α β : Type} {x : Outcome α} {f : α → Outcome β} (hx : NP x) (hf : ∀ a, NP (f a)) :
    NP (x >>= f) := by
  cases x with
  | ok a => exact hf a
  | err e => rfl
  | panic w => cases hx
  | outOfFuel => rfl

theorem NP.bind' {α β : Type} {x : Outcome α} {f : α → Outcome β} (hx : NP x) (hf : ∀ a, NP (f a)) :
    NP (x.bind f) := NP.bind hx hf

instance : LawfulMonad Outcome := LawfulMonad.mk'
  (id_map := by intro α x; cases x <;> rfl)
  (pure_bind := by intro α β a f; rfl)
  (bind_assoc := by intro α β γ x f g; cases x <;> rfl)

theorem NP.foldlM {σ α : Type} {f : σ → α → Outcome σ} (hf : ∀ s a, NP (f s a)) :
    ∀ (l : List α) (s : σ), NP (l.foldlM f s)
  | [], s => rfl
  | a :: l, s => by
    rw [List.foldlM_cons]
    exact NP.bind (hf s a) (fun s' => NP.foldlM hf l s')

theorem NP.mapM {α β : Type} {f : α → Outcome β} (hf : ∀ a, NP (f a)) : ∀ (l : List α), NP (l.mapM f)
  | [] => rfl
  | a :: l => by
    rw [List.mapM_cons]
    exact NP.bind (hf a) (fun b => NP.bind (NP.mapM hf l) (fun bs => rfl))

/-- one structural step of a no-panic proof -/
macro "np_step" : tactic => `(tactic| first
  | intro _
  | split
  | with_reducible exact NP.ok _ | with_reducible exact NP.pure _ | with_reducible exact NP.err _
  | with_reducible exact NP.oof
  | with_reducible assumption
  | with_reducible apply NP.bind | with_reducible apply NP.bind' | with_reducible apply NP.foldlM
  | with_reducible apply NP.mapM
  | dsimp only)

macro "np" : tactic => `(tactic| repeat' np_step)

/-- the same, trying the given closing tactic first on every goal (recursive calls, known callees) -/
macro "np_using " t:tacticSeq : tactic => `(tactic| repeat' (first | with_reducible ($t) | np_step))

/-! ### leaves -/

theorem np_need {α : Type} (fn arg : String) : NP (need fn arg : Outcome α) := rfl

theorem np_ask (fn : String) (f : String → Option String) (arg : String) : NP (ask fn f arg) := by
  unfold ask; split
  · rfl
  · exact np_need _ _

theorem np_updateRef (d : J) (key ref : String) : NP (Replace.updateRef d key ref) := by
  unfold Replace.updateRef; np

theorem np_rewriteSchemaToRef (d : J) (key ref : String) : NP (Replace.rewriteSchemaToRef d key ref) := by
  unfold Replace.rewriteSchemaToRef; np

theorem np_updateRefWithSchema (d : J) (key : String) (sch : J) : NP (Replace.updateRefWithSchema d key sch) := by
  unfold Replace.updateRefWithSchema; np

theorem np_updateRefInSchema (sch : J) (key ref : String) : NP (updateRefInSchema sch key ref) := by
  unfold updateRefInSchema; np

theorem np_classify (fc : Facts) (x : Classify.Ext) (root : J) :
    ∀ (fuel : Nat) (visited : List String) (s : J), NP (Classify.classify fc x root fuel visited s)
  | 0, _, _ => rfl
  | fuel + 1, visited, s => by
    have ih := np_classify fc x root fuel
    unfold Classify.classify
    dsimp only
    np_using (exact ih _ _)

theorem np_deepestRefLoop (x : Ext) (d : J) :
    ∀ (fuel : Nat) (visited : List String) (cur : String), NP (deepestRefLoop x d fuel visited cur)
  | 0, _, _ => rfl
  | fuel + 1, visited, cur => by
    have ih := np_deepestRefLoop x d fuel
    unfold deepestRefLoop
    np_using (first | exact ih _ _ | exact np_need _ _)

theorem np_deepestRef (x : Ext) (d : J) (fuel : Nat) (ref : String) : NP (deepestRef x d fuel ref) := by
  unfold deepestRef
  np_using (exact np_deepestRefLoop _ _ _ _ _)

theorem np_uniqifyName (f : Facts) (x : Names.Ext) (defs : List String) (name : String) (fuel : Nat) :
    NP (Names.uniqifyName f x defs name fuel) := by
  unfold Names.uniqifyName; dsimp only; np

theorem np_uniqify (fc : Facts) (x : Ext) (defs : List String) (name : String) : NP (uniqify fc x defs name) := by
  unfold uniqify
  np_using (first | exact np_need _ _ | exact np_uniqifyName _ _ _ _ _)

theorem np_removeUnusedLoop (f : Facts) (x : RemoveUnused.Ext) :
    ∀ (fuel : Nat) (d : J), NP (RemoveUnused.removeUnused f x fuel d)
  | 0, _ => rfl
  | fuel + 1, d => by
    have ih := np_removeUnusedLoop f x fuel
    unfold RemoveUnused.removeUnused
    np_using (exact ih _)

/-- closes a goal about one of the leaf functions above -/
macro "np_leaf" : tactic => `(tactic| first | exact np_need _ _ | exact np_ask _ _ _ | exact np_updateRef _ _ _ | exact np_rewriteSchemaToRef _ _ _ | exact np_updateRefWithSchema _ _ _ | exact np_updateRefInSchema _ _ _ | exact np_deepestRef _ _ _ _ | exact np_uniqify _ _ _ _ | exact np_classify _ _ _ _ _ _ | exact np_removeUnusedLoop _ _ _ _)

/-! ### names and operations -/

theorem np_gatherFrom (x : Ext) (ops : List (String × String × J)) : NP (gatherFrom x ops) := by
  unfold gatherFrom
  np_using (first | np_leaf)

theorem np_gatherOperations (x : Ext) (idx : List Analyzer.Ent) : NP (gatherOperations x idx) := by
  unfold gatherOperations
  exact np_gatherFrom _ _

theorem np_opRefsByRef (x : Ext) (idx : List Analyzer.Ent) : NP (opRefsByRef x idx) := by
  unfold opRefsByRef
  np_using (first | exact np_gatherOperations _ _ | np_leaf)

theorem np_pathItemRef (x : Ext) (s : List String) : NP (pathItemRef x s) := by
  unfold pathItemRef
  np_using (first | np_leaf)

theorem np_pathRef (x : Ext) (s : List String) : NP (pathRef x s) := by
  unfold pathRef
  np_using (first | np_leaf)

theorem np_responseName (x : Ext) (s : List String) : NP (responseName x s) := by
  unfold responseName
  np_using (first | np_leaf)

theorem np_namesForParam (x : Ext) (s : List String) (ops : List (String × OpRef)) : NP (namesForParam x s ops) := by
  unfold namesForParam
  np_using (first | exact np_pathItemRef _ _ | exact np_pathRef _ _ | np_leaf)

theorem np_namesForOperation (x : Ext) (s : List String) (ops : List (String × OpRef)) :
    NP (namesForOperation x s ops) := by
  unfold namesForOperation
  np_using (first | exact np_namesForParam _ _ _ | exact np_pathItemRef _ _ | exact np_responseName _ _ | np_leaf)

theorem np_namesFromKey (x : Ext) (s : List String) (fl : Classify.Flags) (ops : List (String × OpRef)) :
    NP (namesFromKey x s fl ops) := by
  unfold namesFromKey
  np_using (first | exact np_namesForOperation _ _ _ | np_leaf)

theorem np_nameWith (fc : Facts) (x : Ext) (o : Opts) (st : St) (key : String) (schema : J) (parts : List String)
    (name : String) : NP (nameWith fc x o st key schema parts name) := by
  unfold nameWith
  np_using (first | np_leaf)

theorem np_nameSchema (fc : Facts) (x : Ext) (o : Opts) (ops : List (String × OpRef)) (st : St) (key : String)
    (schema : J) (fl : Classify.Flags) : NP (nameSchema fc x o ops st key schema fl) := by
  unfold nameSchema
  np_using (first | exact np_namesFromKey _ _ _ _ | exact np_nameWith _ _ _ _ _ _ _ _ | np_leaf)

theorem np_nameInlinedSchemas (fc : Facts) (x : Ext) (o : Opts) (s : St) : NP (nameInlinedSchemas fc x o s) := by
  unfold nameInlinedSchemas
  generalize classifyFuel = cf
  np_using (first | exact np_opRefsByRef _ _ | exact np_nameSchema _ _ _ _ _ _ _ _ | np_leaf)

/-! ### the other phases -/

theorem np_normalizeRef (fc : Facts) (x : Ext) (o : Opts) (s : St) : NP (normalizeRef fc x o s) := by
  unfold normalizeRef
  np_using (first | np_leaf)

theorem np_removeUnused (fc : Facts) (x : Ext) (s : St) : NP (Flatten.removeUnused fc x s) := by
  unfold Flatten.removeUnused
  np_using (first | np_leaf)

theorem np_flattenAnonPointer (fc : Facts) (x : Ext) (o : Opts) (ops : List (String × OpRef)) (st : St)
    (plans : List (String × PtrPlan)) (key : String) (v : PtrPlan) :
    NP (flattenAnonPointer fc x o ops st plans key v) := by
  unfold flattenAnonPointer
  generalize classifyFuel = cf
  np_using (first | exact np_nameSchema _ _ _ _ _ _ _ _ | np_leaf)

theorem np_namePointersPass (fc : Facts) (x : Ext) (o : Opts) (s : St) : NP (namePointersPass fc x o s) := by
  unfold namePointersPass
  np_using (first | exact np_opRefsByRef _ _ | exact np_flattenAnonPointer _ _ _ _ _ _ _ _ | np_leaf)

theorem np_namePointersLoop (fc : Facts) (x : Ext) (o : Opts) : ∀ (fuel : Nat) (s : St), NP (namePointersLoop fc x o fuel s)
  | 0, _ => rfl
  | fuel + 1, s => by
    have ih := np_namePointersLoop fc x o fuel
    unfold namePointersLoop
    np_using (first | exact ih _ | exact np_namePointersPass _ _ _ _ | np_leaf)

theorem np_namePointers (fc : Facts) (x : Ext) (o : Opts) (s : St) : NP (namePointers fc x o s) :=
  np_namePointersLoop fc x o _ s

/-- `pr[0]` on the sorted parents was the one index expression of the pipeline that could panic; since
    the repair that picks the first parent *outside* of the definition (fix in /repo), the site is only
    reached with an index found by a search, and nothing is left to guard -/
theorem np_stripOAIGenForRef (fc : Facts) (x : Ext) (st : St) (k : String) (r : NewRef) :
    NP (stripOAIGenForRef fc x st k r) := by
  unfold stripOAIGenForRef
  generalize classifyFuel = cf
  np_using np_leaf

theorem np_stripInOrder (fc : Facts) (x : Ext) (s1 : St) (order : List String) : NP (stripInOrder fc x s1 order) := by
  unfold stripInOrder
  np_using (first | exact np_stripOAIGenForRef _ _ _ _ _ | np_leaf)

theorem np_stripOAIGen (fc : Facts) (x : Ext) (s : St) : NP (stripOAIGen fc x s) := by
  unfold stripOAIGen
  exact np_stripInOrder _ _ _ _

/-! ### import -/

theorem np_normPath (o : Opts) (ref : String) : NP (normPath o ref) := by
  unfold normPath; np

theorem np_rebaseRef (baseRef ref : String) : NP (rebaseRef baseRef ref) := by
  unfold rebaseRef; np

theorem np_rawNameFromRef (ref : String) : NP (rawNameFromRef ref) := by
  unfold rawNameFromRef; np

theorem np_reverseIndex (o : Opts) (schemas : List (String × String)) : NP (reverseIndex o schemas) := by
  unfold reverseIndex
  np_using (first | exact np_normPath _ _ | np_leaf)

theorem np_importNewRef (fc : Facts) (x : Ext) (o : Opts) (st : St) (refStr : String) (entry : RevIdx) :
    NP (importNewRef fc x o st refStr entry) := by
  unfold importNewRef
  np_using (first | exact np_rebaseRef _ _ | exact np_rawNameFromRef _ | np_leaf)

theorem np_maintainNewRefs (x : Ext) (st : St) : NP (maintainNewRefs x st) := by
  unfold maintainNewRefs
  np_using (first | np_leaf)

theorem np_importExternalReferences (fc : Facts) (x : Ext) (o : Opts) (s : St) :
    NP (importExternalReferences fc x o s) := by
  unfold importExternalReferences
  np_using (first | exact np_reverseIndex _ _ | exact np_importNewRef _ _ _ _ _ _ | exact np_maintainNewRefs _ _ | np_leaf)

theorem np_importReferences (fc : Facts) (x : Ext) (o : Opts) : ∀ (fuel : Nat) (s : St), NP (importReferences fc x o fuel s)
  | 0, _ => rfl
  | fuel + 1, s => by
    have ih := np_importReferences fc x o fuel
    unfold importReferences
    np_using (first | exact ih _ | exact np_importExternalReferences _ _ _ _ | np_leaf)

theorem np_importReferencesLocal (fc : Facts) (s : St) : NP (importReferencesLocal fc s) := by
  unfold importReferencesLocal; np

/-! ### the pipeline -/

theorem np_stripLoop (fc : Facts) (x : Ext) (o : Opts) : ∀ (fuel : Nat) (s : St) (again : Bool), NP (stripLoop fc x o fuel s again)
  | 0, _, _ => rfl
  | fuel + 1, s, again => by
    have ih := np_stripLoop fc x o fuel
    unfold stripLoop
    np_using (first | exact ih _ _ | exact np_nameInlinedSchemas _ _ _ _ | exact np_namePointers _ _ _ _ | exact np_stripOAIGen _ _ _)

theorem np_stripPointersAndOAIGen (fc : Facts) (x : Ext) (o : Opts) (fuel : Nat) (s : St) :
    NP (stripPointersAndOAIGen fc x o fuel s) := by
  unfold stripPointersAndOAIGen
  np_using (first | exact np_namePointers _ _ _ _ | exact np_stripOAIGen _ _ _ | exact np_stripLoop _ _ _ _ _ _ | np_leaf)

theorem np_flatten (fc : Facts) (x : Ext) (o : Opts) (fuel : Nat) (s : St) : NP (flatten fc x o fuel s) := by
  unfold flatten
  np_using (first | exact np_normalizeRef _ _ _ _ | exact np_importReferences _ _ _ _ _ | exact np_nameInlinedSchemas _ _ _ _ | exact np_stripPointersAndOAIGen _ _ _ _ _ | exact np_removeUnused _ _ _ | np_leaf)

theorem np_flattenLocal (fc : Facts) (x : Ext) (o : Opts) (fuel : Nat) (s : St) : NP (flattenLocal fc x o fuel s) := by
  unfold flattenLocal
  np_using (first | exact np_normalizeRef _ _ _ _ | exact np_importReferencesLocal _ _ | exact np_nameInlinedSchemas _ _ _ _ | exact np_stripPointersAndOAIGen _ _ _ _ _ | exact np_removeUnused _ _ _ | np_leaf)

end Proofs.NoPanic
