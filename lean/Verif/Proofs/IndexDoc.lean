import Verif.Proofs.IndexSchema

/-!
  Document level: the log of `Analyzer.analyze` is, up to a permutation, the per-position entries of
  the positions the specification enumerates (plus the entries no index of C11–C13 looks at).
-/

namespace IndexProof
open J Analyzer Spec.Index Str ListPerm

/-! ### entries per position and per holder -/

def parRefE (p : Pos) : List Ent := refEnt "parameter" (ptr p.1) p.2
def parPatE (p : Pos) : List Ent := patEnum "parameter" (ptr p.1) p.2
def respE (p : Pos) : List Ent := refEnt "response" (ptr p.1) p.2
def hdrE (p : Pos) : List Ent := patEnum "header" (ptr p.1) p.2
def piE (p : Pos) : List Ent := refEnt "pathItem" (ptr p.1) p.2

/-- everything logged for one parameter (`listed`: it sits in a parameter list, so it may be a `$ref`) -/
def PA (listed : Bool) (p : Pos) : List Ent :=
  (if listed then parRefE p else []) ++ parPatE p ++ (itemsOf p).flatMap (itE "parameter") ++
  (if p.2.getStr "in" = "body" then (Spec.Index.schemaOf p).flatMap schE else [])

/-- everything logged for one header -/
def HA (h : Pos) : List Ent := hdrE h ++ (itemsOf h).flatMap (itE "header")

/-- everything logged for one response (`op`: it belongs to an operation, so it may be a `$ref`) -/
def RA (op : Bool) (p : Pos) : List Ent :=
  (if op then respE p else []) ++ (headersOf p).flatMap HA ++ (Spec.Index.schemaOf p).flatMap schE

def Good (p : Pos) : Prop := ∀ t ∈ p.1, GoodTok t

structure GoodParam (p : Pos) : Prop where
  self : Good p
  items : ∀ q ∈ itemsOf p, Good q
  schema : ∀ q ∈ Spec.Index.schemaOf p, Good q
  bodyOnly : p.2.getStr "in" ≠ "body" → p.2.get? "schema" = none

structure GoodHeader (h : Pos) : Prop where
  self : Good h
  name : Str.esc (lastTok h.1) = lastTok h.1
  items : ∀ q ∈ itemsOf h, Good q

structure GoodResp (p : Pos) : Prop where
  self : Good p
  headers : ∀ h ∈ headersOf p, GoodHeader h
  schema : ∀ q ∈ Spec.Index.schemaOf p, Good q

/-! ### holders -/

theorem analyzeItems_perm (toks : List String) (n : J) (loc : String) (hne : toks ≠ [])
    (ht : ∀ t ∈ toks, GoodTok t) (hg : ∀ q ∈ itemsOf (toks, n), Good q) :
    (analyzeItems n (ptr toks) loc).Perm ((itemsOf (toks, n)).flatMap (itE loc)) := by
  unfold analyzeItems itemsOf at *
  simp only at hg ⊢
  cases h : n.get? "items" with
  | none => simp
  | some it =>
    rw [h] at hg
    simp only
    rw [join1_lit toks "items" ht hne goodTok_items (by decide)]
    exact aItems_perm loc _ it (by simp) hg

theorem schemaOf_eq (toks : List String) (n : J) (hl : 2 ≤ toks.length)
    (ht : ∀ t ∈ toks, GoodTok t) (hg : ∀ q ∈ Spec.Index.schemaOf (toks, n), Good q) :
    Analyzer.schemaOf n (ptr toks) = (Spec.Index.schemaOf (toks, n)).flatMap schE := by
  unfold Analyzer.schemaOf Spec.Index.schemaOf analyzeSchema at *
  simp only at hg ⊢
  cases h : n.get? "schema" with
  | none => simp
  | some s =>
    rw [h] at hg
    simp only
    have hd : decide (ptr toks = "/definitions") = false := by
      simpa using ptr_ne_definitions toks hl
    rw [hd]
    exact child_eq toks "schema" s hl ht hg (aSchema_eq _ s)

theorem good_snoc2 {toks : List String} {a b : String} (_ht : ∀ t ∈ toks, GoodTok t) :
    (∀ t ∈ toks ++ [a, b], GoodTok t) → GoodTok a ∧ GoodTok b := by
  intro h
  exact ⟨h a (by simp), h b (by simp)⟩

/-- the four pieces logged for a parameter whose key is already in pointer form -/
theorem param_perm (listed : Bool) (p : Pos) (hl : 2 ≤ p.1.length) (hp : GoodParam p) :
    ((if listed then refEnt "parameter" (ptr p.1) p.2 else []) ++ patEnum "parameter" (ptr p.1) p.2 ++
      analyzeItems p.2 (ptr p.1) "parameter" ++
      (if p.2.getStr "in" = "body" then Analyzer.schemaOf p.2 (ptr p.1) else [])).Perm (PA listed p) := by
  have hne : p.1 ≠ [] := by intro e; simp [e] at hl
  unfold PA parRefE parPatE
  refine List.Perm.append (List.Perm.append_left _ (analyzeItems_perm p.1 p.2 _ hne hp.self hp.items)) ?_
  rw [schemaOf_eq p.1 p.2 hl hp.self hp.schema]

theorem schemaOf_bodyOnly (p : Pos) (key : String)
    (h : p.2.getStr "in" ≠ "body" → p.2.get? "schema" = none) :
    Analyzer.schemaOf p.2 key = if p.2.getStr "in" = "body" then Analyzer.schemaOf p.2 key else [] := by
  split
  · rfl
  · rename_i hb
    simp [Analyzer.schemaOf, h hb]

theorem analyzeHeaders_perm (toks : List String) (res : J) (hne : toks ≠ [])
    (ht : ∀ t ∈ toks, GoodTok t) (hg : ∀ h ∈ headersOf (toks, res), GoodHeader h) :
    (analyzeHeaders (ptr toks) res true).Perm ((headersOf (toks, res)).flatMap HA) := by
  unfold analyzeHeaders headersOf at *
  simp only [List.flatMap_map]
  refine List.Perm.flatMap_left _ ?_
  intro kv hkv
  have hh := hg (toks ++ ["headers", kv.1], kv.2) (List.mem_map.2 ⟨kv, hkv, rfl⟩)
  have hgood := good_snoc2 ht hh.self
  have hname : Str.esc kv.1 = kv.1 := by simpa [lastTok] using hh.name
  have hkey : Str.join [ptr toks, "headers", kv.1] = ptr (toks ++ ["headers", kv.1]) := by
    have := join2 toks "headers" kv.1 ht hne hgood.1 hgood.2
    rwa [hname, show Str.esc "headers" = "headers" by decide] at this
  simp only [hkey, HA, hdrE]
  rw [List.filter_eq_self.2 (by intro e _; cases e <;> rfl)]
  exact List.perm_append_comm.trans
    (List.Perm.append_left _ (analyzeItems_perm _ kv.2 _ (by simp) hh.self hh.items))

theorem analyzeResponse_perm (toks : List String) (name : String) (res : J) (hl : 1 ≤ toks.length)
    (ht : ∀ t ∈ toks, GoodTok t) (hname : Str.esc name = name)
    (hg : GoodResp (toks ++ ["responses", name], res)) :
    (analyzeResponse (ptr toks) name res true).Perm (RA true (toks ++ ["responses", name], res)) := by
  have hne : toks ≠ [] := by intro e; simp [e] at hl
  have hgood := good_snoc2 ht hg.self
  have hkey : Str.join [ptr toks, "responses", name] = ptr (toks ++ ["responses", name]) := by
    have := join2 toks "responses" name ht hne hgood.1 hgood.2
    rwa [hname, show Str.esc "responses" = "responses" by decide] at this
  unfold analyzeResponse RA respE
  simp only [hkey, if_true]
  rw [schemaOf_eq _ res (by simp) hg.self hg.schema]
  exact List.Perm.append_right _
    (List.Perm.append_left _ (analyzeHeaders_perm _ res (by simp) hg.self hg.headers))

/-! ### parameters of a holder -/

theorem analyzeParameter_perm (toks : List String) (i : Nat) (param : J) (hne : toks ≠ [])
    (ht : ∀ t ∈ toks, GoodTok t) (hp : GoodParam (toks ++ ["parameters", toString i], param)) :
    (analyzeParameter (ptr toks) i param).Perm (PA true (toks ++ ["parameters", toString i], param)) := by
  have hkey : Str.join [ptr toks, "parameters", Str.itoa i] = ptr (toks ++ ["parameters", toString i]) := by
    have := join2 toks "parameters" (toString i) ht hne ⟨by decide, by decide, by decide⟩ (goodTok_itoa i)
    rwa [esc_itoa, show Str.esc "parameters" = "parameters" by decide] at this
  have := param_perm true (toks ++ ["parameters", toString i], param) (by simp) hp
  unfold analyzeParameter
  simpa only [hkey, if_true] using this

theorem params_perm (toks : List String) (holder : J) (hne : toks ≠ [])
    (ht : ∀ t ∈ toks, GoodTok t) (hP : ∀ p ∈ paramsOf (toks, holder), GoodParam p) :
    ((Analyzer.indexed (holder.getArr "parameters")).flatMap fun ip => analyzeParameter (ptr toks) ip.1 ip.2).Perm
      ((paramsOf (toks, holder)).flatMap (PA true)) := by
  unfold paramsOf at *
  rw [List.flatMap_map]
  refine List.Perm.flatMap_left _ ?_
  intro ip hip
  exact analyzeParameter_perm toks ip.1 ip.2 hne ht (hP _ (List.mem_map.2 ⟨ip, hip, rfl⟩))

/-! ### operations -/

/-- responses of an operation position -/
def respOf (o : Pos) : List Pos :=
  ((o.2.getObj "responses").filter fun kv => isResponseKey kv.1).map fun kv =>
    (o.1 ++ ["responses", kv.1], kv.2)

/-- entries of an operation that none of the indexes of C11–C13 reads -/
def opJunk (o : String × String × Pos) : List Ent :=
  (o.2.2.2.getStrs "consumes").map Ent.consumes ++ (o.2.2.2.getStrs "produces").map Ent.produces ++
  ((o.2.2.2.getArr "security").flatMap fun req =>
    match req with | .obj kvs => kvs.map fun kv => Ent.auth kv.1 | _ => []) ++
  [Ent.op o.1 o.2.1 o.2.2.2]

def opT (o : String × String × Pos) : List Ent :=
  opJunk o ++ (paramsOf o.2.2).flatMap (PA true) ++ (respOf o.2.2).flatMap (RA true)

theorem match_getObj {β} (n : J) (k : String) (F : String × J → List β) :
    (match n.get? k with
     | some (.obj rs) => rs.flatMap F
     | _ => []) = (n.getObj k).flatMap F := by
  unfold getObj
  split <;> simp_all

theorem esc_of_codeKey (k : String) (h : Doc.isCodeKey k = true) : Str.esc k = k := by
  apply esc_of_digits
  simp only [Doc.isCodeKey, decide_eq_true_eq] at h
  exact h.2.2.2

theorem responses_perm (f : Facts) (hf : f.defaultHeaderEnums = true) (toks : List String) (op : J)
    (hne : toks ≠ []) (ht : ∀ t ∈ toks, GoodTok t) (hR : ∀ r ∈ respOf (toks, op), GoodResp r) :
    ((op.getObj "responses").flatMap fun kv =>
       if kv.1 = "default" then analyzeResponse (ptr toks) "default" kv.2 f.defaultHeaderEnums
       else if Doc.isCodeKey kv.1 then analyzeResponse (ptr toks) kv.1 kv.2 true
       else []).Perm ((respOf (toks, op)).flatMap (RA true)) := by
  unfold respOf at *
  rw [List.flatMap_map, List.flatMap_filter']
  refine List.Perm.flatMap_left _ ?_
  intro kv hkv
  have hl : 1 ≤ toks.length := by
    cases toks with
    | nil => exact absurd rfl hne
    | cons _ _ => simp
  by_cases h1 : kv.1 = "default"
  · have hk : isResponseKey kv.1 = true := by simp [isResponseKey, h1]
    have hg := hR (toks ++ ["responses", kv.1], kv.2)
      (List.mem_map.2 ⟨kv, List.mem_filter.2 ⟨hkv, hk⟩, rfl⟩)
    rw [if_pos h1, if_pos hk, hf]
    rw [h1] at hg ⊢
    exact analyzeResponse_perm toks "default" kv.2 hl ht (by decide) hg
  · rw [if_neg h1]
    by_cases h2 : Doc.isCodeKey kv.1 = true
    · have hk : isResponseKey kv.1 = true := by simp [isResponseKey, h2]
      have hg := hR (toks ++ ["responses", kv.1], kv.2)
        (List.mem_map.2 ⟨kv, List.mem_filter.2 ⟨hkv, hk⟩, rfl⟩)
      rw [if_pos h2, if_pos hk]
      exact analyzeResponse_perm toks kv.1 kv.2 hl ht (esc_of_codeKey _ h2) hg
    · have hk : ¬ isResponseKey kv.1 = true := by simp [isResponseKey, h1, h2]
      rw [if_neg h2, if_neg hk]

theorem methods_facts {m : String} (h : m ∈ Doc.methods) :
    GoodTok m ∧ Str.esc m = m ∧ Str.toLowerAscii (Str.toUpperAscii m) = m := by
  simp only [Doc.methods, List.mem_cons, List.not_mem_nil, or_false] at h
  rcases h with h | h | h | h | h | h | h <;> subst h <;>
    exact ⟨⟨by decide, by decide, by decide⟩, by decide, by decide⟩

theorem analyzeOperation_perm (f : Facts) (hf : f.defaultHeaderEnums = true) (path m : String) (op : J)
    (hm : m ∈ Doc.methods) (hpath : GoodTok path)
    (hP : ∀ p ∈ paramsOf (["paths", path, m], op), GoodParam p)
    (hR : ∀ r ∈ respOf (["paths", path, m], op), GoodResp r) :
    (analyzeOperation f (Str.toUpperAscii m) path op).Perm
      (opT (Str.toUpperAscii m, path, (["paths", path, m], op))) := by
  obtain ⟨hm1, hm2, hm3⟩ := methods_facts hm
  have ht : ∀ t ∈ ["paths", path, m], GoodTok t := by
    intro t
    simp only [List.mem_cons, List.not_mem_nil, or_false]
    rintro (rfl | rfl | rfl)
    · exact ⟨by decide, by decide, by decide⟩
    · exact hpath
    · exact hm1
  have hkey : Str.join ["/paths", Str.esc path, Str.toLowerAscii (Str.toUpperAscii m)] =
      ptr ["paths", path, m] := by
    have := join_lit_toks "paths" [path, m] ⟨by decide, by decide, by decide⟩ (by decide)
      (by intro k hk; exact ht k (List.mem_cons_of_mem _ hk))
    rw [hm3]
    simpa [hm2, show ("/" : String) ++ "paths" = "/paths" by decide] using this
  unfold analyzeOperation opT opJunk
  simp only [hkey]
  refine List.Perm.append (List.Perm.append_left _ (params_perm _ op (by simp) ht hP)) ?_
  have h := responses_perm f hf _ op (by simp) ht hR
  rw [← match_getObj] at h
  exact h

/-! ### path items -/

def opsOf (path : String) (pi : J) : List (String × String × Pos) :=
  Doc.methods.filterMap fun m =>
    (pi.get? m).map fun op => (Str.toUpperAscii m, path, (["paths", path, m], op))

theorem operations_eq (d : J) : operations d = (Doc.pathItems d).flatMap fun kv => opsOf kv.1 kv.2 := rfl

theorem opResponses_eq (d : J) : opResponses d = (operations d).flatMap fun o => respOf o.2.2 := rfl

structure GoodOp (o : String × String × Pos) : Prop where
  params : ∀ p ∈ paramsOf o.2.2, GoodParam p
  resps : ∀ r ∈ respOf o.2.2, GoodResp r

/-- everything logged for one path item -/
def piT (kv : String × J) : List Ent :=
  piE (["paths", kv.1], kv.2) ++ (opsOf kv.1 kv.2).flatMap opT ++
  (paramsOf (["paths", kv.1], kv.2)).flatMap (PA true)

theorem goodTok_paths : GoodTok "paths" := ⟨by decide, by decide, by decide⟩

theorem slash_paths : ("/paths" : String) = "/" ++ "paths" := by decide
theorem esc_parameters : Str.esc "parameters" = "parameters" := by decide

theorem key_path (path : String) (hpath : GoodTok path) :
    Str.join ["/paths", Str.esc path] = ptr ["paths", path] := by
  rw [slash_paths]
  exact join_lit_toks "paths" [path] goodTok_paths (by decide) (by simpa using hpath)

theorem key_path_param (path : String) (hpath : GoodTok path) (i : Nat) :
    Str.join ["/paths", Str.esc path, "parameters", Str.itoa i] =
      ptr (["paths", path] ++ ["parameters", toString i]) := by
  have := join_lit_toks "paths" [path, "parameters", toString i] goodTok_paths (by decide)
    (by
      intro k
      simp only [List.mem_cons, List.not_mem_nil, or_false]
      rintro (rfl | rfl | rfl)
      · exact hpath
      · exact ⟨by decide, by decide, by decide⟩
      · exact goodTok_itoa i)
  simp only [List.map_cons, List.map_nil, esc_itoa, esc_parameters] at this
  rw [slash_paths]
  exact this

theorem methods_perm (f : Facts) (hd : f.defaultHeaderEnums = true) (path : String) (pi : J)
    (hpath : GoodTok path) (hO : ∀ o ∈ opsOf path pi, GoodOp o) :
    (Doc.methods.flatMap fun m =>
      match pi.get? m with
      | some op => analyzeOperation f (Str.toUpperAscii m) path op
      | none => []).Perm ((opsOf path pi).flatMap opT) := by
  unfold opsOf at *
  rw [List.flatMap_filterMap']
  refine List.Perm.flatMap_left _ ?_
  intro m hm
  cases hget : pi.get? m with
  | none => simp
  | some op =>
    have hg := hO (Str.toUpperAscii m, path, (["paths", path, m], op))
      (List.mem_filterMap.2 ⟨m, hm, by simp [hget]⟩)
    simp only [Option.map_some]
    exact analyzeOperation_perm f hd path m op hm hpath hg.params hg.resps

theorem analyzeOperations_perm (f : Facts)
    (hm : f.analyzerMethods.Perm (Doc.methods.map fun m => (Str.toUpperAscii m, m)))
    (hd : f.defaultHeaderEnums = true) (path : String) (pi : J)
    (hpath : GoodTok path) (hO : ∀ o ∈ opsOf path pi, GoodOp o)
    (hP : ∀ p ∈ paramsOf (["paths", path], pi), GoodParam p) :
    (analyzeOperations f path pi).Perm (piT (path, pi)) := by
  have ht : ∀ t ∈ ["paths", path], GoodTok t := by
    intro t
    simp only [List.mem_cons, List.not_mem_nil, or_false]
    rintro (rfl | rfl)
    · exact goodTok_paths
    · exact hpath
  have hkey := key_path path hpath
  have hkey2 := key_path_param path hpath
  unfold analyzeOperations piT piE
  simp only [hkey, hkey2]
  refine List.Perm.append (List.Perm.append_left _ ?_) ?_
  · refine ((List.Perm.flatMap_right _ hm).trans ?_)
    rw [List.flatMap_map]
    exact methods_perm f hd path pi hpath hO
  · unfold paramsOf at *
    rw [List.flatMap_map]
    refine List.Perm.flatMap_left _ ?_
    intro ip hip
    have hp := hP (["paths", path] ++ ["parameters", toString ip.1], ip.2) (List.mem_map.2 ⟨ip, hip, rfl⟩)
    have := param_perm true (["paths", path] ++ ["parameters", toString ip.1], ip.2) (by simp) hp
    rw [schemaOf_bodyOnly (["paths", path] ++ ["parameters", toString ip.1], ip.2) _ hp.bodyOnly]
    simpa only [if_true] using this

/-! ### the document -/

/-- every position the analyzer indexes (the same list as `C11.positions`) -/
def positions (d : J) : List Pos :=
  allSchemas d ++ listedParams d ++ sharedParams d ++ opResponses d ++ sharedResponses d ++ headers d ++
  paramItems d ++ headerItems d ++ pathItemPositions d

/-- the hypotheses of C11–C13 on the document (the fields of `C11.WF`) -/
structure WF' (d : J) : Prop where
  toks : ∀ p ∈ positions d, ∀ t ∈ p.1, Str.GoodTok t
  headerNames : ∀ h ∈ headers d, Str.esc (lastTok h.1) = lastTok h.1
  bodyOnly : ∀ p ∈ listedParams d ++ sharedParams d, p.2.getStr "in" ≠ "body" → p.2.get? "schema" = none

theorem pos_schemas {d : J} {p : Pos} (h : p ∈ allSchemas d) : p ∈ positions d := by
  simp only [positions, List.mem_append, h, true_or]

theorem pos_listed {d : J} {p : Pos} (h : p ∈ listedParams d) : p ∈ positions d := by
  simp only [positions, List.mem_append, h, true_or, or_true]

theorem pos_shared {d : J} {p : Pos} (h : p ∈ sharedParams d) : p ∈ positions d := by
  simp only [positions, List.mem_append, h, true_or, or_true]

theorem pos_opResp {d : J} {p : Pos} (h : p ∈ opResponses d) : p ∈ positions d := by
  simp only [positions, List.mem_append, h, true_or, or_true]

theorem pos_sharedResp {d : J} {p : Pos} (h : p ∈ sharedResponses d) : p ∈ positions d := by
  simp only [positions, List.mem_append, h, true_or, or_true]

theorem pos_headers {d : J} {p : Pos} (h : p ∈ headers d) : p ∈ positions d := by
  simp only [positions, List.mem_append, h, true_or, or_true]

theorem pos_paramItems {d : J} {p : Pos} (h : p ∈ paramItems d) : p ∈ positions d := by
  simp only [positions, List.mem_append, h, true_or, or_true]

theorem pos_headerItems {d : J} {p : Pos} (h : p ∈ headerItems d) : p ∈ positions d := by
  simp only [positions, List.mem_append, h, true_or, or_true]

theorem pos_pathItems {d : J} {p : Pos} (h : p ∈ pathItemPositions d) : p ∈ positions d := by
  simp only [positions, List.mem_append, h, or_true]

theorem schemaOf_nil_of_none (p : Pos) (h : p.2.get? "schema" = none) : Spec.Index.schemaOf p = [] := by
  simp [Spec.Index.schemaOf, h]

theorem WF'.goodParam {d : J} (h : WF' d) : ∀ p ∈ listedParams d ++ sharedParams d, GoodParam p := by
  intro p hp
  refine ⟨?_, ?_, ?_, h.bodyOnly p hp⟩
  · refine h.toks p ?_
    rcases List.mem_append.1 hp with hp | hp
    · exact pos_listed hp
    · exact pos_shared hp
  · intro q hq
    refine h.toks q ?_
    have : q ∈ paramItems d := List.mem_flatMap.2 ⟨p, hp, hq⟩
    exact pos_paramItems this
  · intro q hq
    refine h.toks q ?_
    by_cases hb : p.2.getStr "in" = "body"
    · have : q ∈ allSchemas d := by
        unfold allSchemas
        refine List.mem_append_left _ (List.mem_append_left _ (List.mem_flatMap.2 ⟨p, ?_, hq⟩))
        exact List.mem_filter.2 ⟨hp, by simpa using hb⟩
      exact pos_schemas this
    · rw [schemaOf_nil_of_none p (h.bodyOnly p hp hb)] at hq
      simp at hq

theorem WF'.goodResp {d : J} (h : WF' d) : ∀ p ∈ opResponses d ++ sharedResponses d, GoodResp p := by
  intro p hp
  refine ⟨?_, ?_, ?_⟩
  · refine h.toks p ?_
    rcases List.mem_append.1 hp with hp | hp
    · exact pos_opResp hp
    · exact pos_sharedResp hp
  · intro hd hhd
    have hmem : hd ∈ headers d := List.mem_flatMap.2 ⟨p, hp, hhd⟩
    refine ⟨?_, h.headerNames hd hmem, ?_⟩
    · exact h.toks hd (pos_headers hmem)
    · intro q hq
      refine h.toks q ?_
      have : q ∈ headerItems d := List.mem_flatMap.2 ⟨hd, hmem, hq⟩
      exact pos_headerItems this
  · intro q hq
    refine h.toks q ?_
    have : q ∈ allSchemas d := by
      unfold allSchemas
      exact List.mem_append_left _ (List.mem_append_right _ (List.mem_flatMap.2 ⟨p, hp, hq⟩))
    exact pos_schemas this

theorem WF'.goodPath {d : J} (h : WF' d) : ∀ kv ∈ Doc.pathItems d, GoodTok kv.1 := by
  intro kv hkv
  refine h.toks (["paths", kv.1], kv.2) ?_ kv.1 (by simp)
  have : (["paths", kv.1], kv.2) ∈ pathItemPositions d := List.mem_map.2 ⟨kv, hkv, rfl⟩
  exact pos_pathItems this

theorem WF'.goodPathParams {d : J} (h : WF' d) :
    ∀ kv ∈ Doc.pathItems d, ∀ p ∈ paramsOf (["paths", kv.1], kv.2), GoodParam p := by
  intro kv hkv p hp
  refine h.goodParam p (List.mem_append_left _ ?_)
  unfold listedParams
  exact List.mem_append_left _ (List.mem_flatMap.2 ⟨kv, hkv, hp⟩)

theorem WF'.goodOp {d : J} (h : WF' d) : ∀ o ∈ operations d, GoodOp o := by
  intro o ho
  refine ⟨?_, ?_⟩
  · intro p hp
    refine h.goodParam p (List.mem_append_left _ ?_)
    unfold listedParams
    exact List.mem_append_right _ (List.mem_flatMap.2 ⟨o, ho, hp⟩)
  · intro r hr
    refine h.goodResp r (List.mem_append_left _ ?_)
    rw [opResponses_eq]
    exact List.mem_flatMap.2 ⟨o, ho, hr⟩

/-- entries of the document that none of the indexes of C11–C13 reads -/
def junk (d : J) : List Ent :=
  (d.getStrs "consumes").map Ent.consumes ++ (d.getStrs "produces").map Ent.produces ++
  ((d.getArr "security").flatMap fun req =>
    match req with | .obj kvs => kvs.map fun kv => Ent.auth kv.1 | _ => []) ++
  (operations d).flatMap opJunk

def defsE (d : J) : List Ent :=
  (d.getObj "definitions").flatMap fun kv => (schemasAt ["definitions", kv.1] kv.2).flatMap schE

/-- the relevant entries, holder by holder -/
def mid (d : J) : List Ent :=
  (listedParams d).flatMap (PA true) ++ (sharedParams d).flatMap (PA false) ++
  (opResponses d).flatMap (RA true) ++ (sharedResponses d).flatMap (RA false) ++
  (pathItemPositions d).flatMap piE ++ defsE d

theorem pathItems_perm (d : J) :
    ((Doc.pathItems d).flatMap piT).Perm
      ((pathItemPositions d).flatMap piE ++ (operations d).flatMap opJunk ++
       (listedParams d).flatMap (PA true) ++ (opResponses d).flatMap (RA true)) := by
  have h1 := List.flatMap_append3_perm (Doc.pathItems d)
    (fun kv => piE (["paths", kv.1], kv.2)) (fun kv => (opsOf kv.1 kv.2).flatMap opT)
    (fun kv => (paramsOf (["paths", kv.1], kv.2)).flatMap (PA true))
  have h2 := List.flatMap_append3_perm (operations d) opJunk
    (fun o => (paramsOf o.2.2).flatMap (PA true)) (fun o => (respOf o.2.2).flatMap (RA true))
  have e1 : ((Doc.pathItems d).flatMap fun kv => (opsOf kv.1 kv.2).flatMap opT) =
      (operations d).flatMap opT := by
    rw [operations_eq, List.flatMap_assoc]
  have e2 : (pathItemPositions d).flatMap piE =
      (Doc.pathItems d).flatMap fun kv => piE (["paths", kv.1], kv.2) := by
    unfold pathItemPositions; rw [List.flatMap_map]
  have e3 : (listedParams d).flatMap (PA true) =
      ((Doc.pathItems d).flatMap fun kv => (paramsOf (["paths", kv.1], kv.2)).flatMap (PA true)) ++
      ((operations d).flatMap fun o => (paramsOf o.2.2).flatMap (PA true)) := by
    unfold listedParams; rw [List.flatMap_append, List.flatMap_assoc, List.flatMap_assoc]
  have e4 : (opResponses d).flatMap (RA true) =
      (operations d).flatMap fun o => (respOf o.2.2).flatMap (RA true) := by
    rw [opResponses_eq, List.flatMap_assoc]
  rw [e2, e3, e4]
  refine (h1.trans ?_)
  rw [e1]
  refine ((List.Perm.append_right _ (List.Perm.append_left _ h2)).trans ?_)
  perm_ac

end IndexProof
