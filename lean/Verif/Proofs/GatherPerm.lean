import Verif.Model.Flatten
import Verif.Proofs.SortRef
import Verif.Proofs.FlattenBase
import Verif.Proofs.NoPanic

/-!
  C07 for `GatherOperations`: the Go code ranges over the map of maps `specDoc.Operations()`, builds one
  `OpRef` per operation, sorts by the derived key and registers the operations by name.  The result does
  not depend on the order in which the operations are met *provided the derived keys are distinct* —
  which is exactly the hypothesis that fails in finding D10 (two id-less operations whose keys
  `ToGoName(method+" "+path)` coincide).
-/

namespace Proofs.GatherPerm
open J Flatten OutcomeM

/-- `mapM` over a permuted list, when both succeed, yields permuted results -/
theorem mapM_perm {α β : Type} (f : α → Outcome β) {l l' : List α} (hp : l.Perm l') :
    ∀ {r : List β}, l.mapM f = .ok r → ∃ r', l'.mapM f = .ok r' ∧ r.Perm r' := by
  induction hp with
  | nil => intro r h; exact ⟨r, h, List.Perm.refl _⟩
  | cons a _ ih =>
    intro r h
    rw [List.mapM_cons] at h
    obtain ⟨b, hb, h⟩ := bind_eq_ok.1 h
    obtain ⟨bs, hbs, h⟩ := bind_eq_ok.1 h
    simp only [pure_eq_ok] at h; subst h
    obtain ⟨bs', hbs', hperm⟩ := ih hbs
    refine ⟨b :: bs', ?_, List.Perm.cons b hperm⟩
    rw [List.mapM_cons, hb]
    simp only [Bind.bind, Outcome.bind, hbs']
    rfl
  | swap a b l =>
    intro r h
    rw [List.mapM_cons, List.mapM_cons] at h
    obtain ⟨vb, hvb, h⟩ := bind_eq_ok.1 h
    obtain ⟨rest, hrest, h⟩ := bind_eq_ok.1 h
    simp only [pure_eq_ok] at h; subst h
    obtain ⟨va, hva, hrest⟩ := bind_eq_ok.1 hrest
    obtain ⟨vs, hvs, hrest⟩ := bind_eq_ok.1 hrest
    simp only [pure_eq_ok] at hrest; subst hrest
    refine ⟨va :: vb :: vs, ?_, List.Perm.swap va vb vs⟩
    rw [List.mapM_cons, List.mapM_cons, hva]
    simp only [Bind.bind, Outcome.bind, hvb, hvs]
    rfl
  | trans _ _ ih1 ih2 =>
    intro r h
    obtain ⟨r1, h1, p1⟩ := ih1 h
    obtain ⟨r2, h2, p2⟩ := ih2 h1
    exact ⟨r2, h2, p1.trans p2⟩

def opLe (a b : OpRef) : Bool := strLe a.key b.key

theorem opLe_trans (a b c : OpRef) (h1 : opLe a b = true) (h2 : opLe b c = true) : opLe a c = true := by
  simp only [opLe, strLe, decide_eq_true_eq] at *
  exact String.le_trans h1 h2

theorem opLe_total (a b : OpRef) : (opLe a b || opLe b a) = true := by
  simp only [opLe, strLe, Bool.or_eq_true, decide_eq_true_eq]
  exact String.le_total a.key b.key

/-- sorting by key forgets the order of the input when equal keys mean equal operations -/
theorem sort_perm {l l' : List OpRef} (hp : l.Perm l')
    (hinj : ∀ a ∈ l, ∀ b ∈ l, a.key = b.key → a = b) : l.mergeSort opLe = l'.mergeSort opLe := by
  apply List.Perm.eq_of_pairwise (le := fun a b => opLe a b = true)
  · intro a b ha hb h1 h2
    have ha' : a ∈ l := (List.mergeSort_perm l opLe).mem_iff.1 ha
    have hb' : b ∈ l := hp.mem_iff.2 ((List.mergeSort_perm l' opLe).mem_iff.1 hb)
    apply hinj a ha' b hb'
    simp only [opLe, strLe, decide_eq_true_eq] at h1 h2
    exact String.le_antisymm h1 h2
  · exact List.pairwise_mergeSort opLe_trans opLe_total l
  · exact List.pairwise_mergeSort opLe_trans opLe_total l'
  · exact (List.mergeSort_perm l opLe).trans (hp.trans (List.mergeSort_perm l' opLe).symm)

/-- the `OpRef` built for an operation -/
def mkOpRef (x : Ext) (o : String × String × J) : Outcome OpRef := do
  let key ← ask "goName" x.goName (Str.toLowerAscii o.1 ++ " " ++ o.2.1)
  let ref ← ask "mkRef" x.mkRef ("#" ++ Str.join ["/paths", Str.esc o.2.1, o.1])
  pure ({ method := o.1, path := o.2.1, key := key, id := o.2.2.getStr "operationId", ref := ref } : OpRef)

/-- `GatherOperations` does not depend on the order in which the operations of the analyzer are met,
    as long as the derived keys tell the operations apart -/
theorem gatherFrom_perm (x : Ext) {ops ops' : List (String × String × J)} (hp : ops.Perm ops')
    (oprefs : List OpRef) (hm : ops.mapM (mkOpRef x) = .ok oprefs)
    (hinj : ∀ a ∈ oprefs, ∀ b ∈ oprefs, a.key = b.key → a = b) :
    gatherFrom x ops' = gatherFrom x ops := by
  obtain ⟨oprefs', hm', hperm⟩ := mapM_perm (mkOpRef x) hp hm
  have hs : oprefs.mergeSort opLe = oprefs'.mergeSort opLe := sort_perm hperm hinj
  unfold gatherFrom
  show ((ops'.mapM (mkOpRef x)) >>= _) = ((ops.mapM (mkOpRef x)) >>= _)
  rw [hm, hm']
  simp only [Bind.bind, Outcome.bind]
  show (pure _ : Outcome _) = pure _
  congr 1
  have h1 : (oprefs'.mergeSort fun a b => strLe a.key b.key) = oprefs'.mergeSort opLe := rfl
  have h2 : (oprefs.mergeSort fun a b => strLe a.key b.key) = oprefs.mergeSort opLe := rfl
  rw [h1, h2, hs]

end Proofs.GatherPerm
