import Verif.Proofs.Index

/-!
  `analyzeSchema` against `schemasAt`: the log of the recursive walk is, in order, the entries of the
  schema positions below the root.
-/

namespace IndexProof
open J Analyzer Spec.Index Str

theorem lastTok_snoc (toks : List String) (k : String) : lastTok (toks ++ [k]) = k := by
  simp [lastTok]

theorem isTopLevel_snoc (toks : List String) (k : String) (h : 2 ≤ toks.length) :
    isTopLevel (toks ++ [k]) = false := by
  match toks, h with
  | a :: b :: rest, _ => simp [isTopLevel]

theorem aSchema_nonobj (key name : String) (top : Bool) (j : J) (h : j.isObj = false) :
    aSchema key name top j = [] := by
  cases j <;> simp_all [aSchema, isObj]

theorem schemasAt_nonobj (toks : List String) (j : J) (h : j.isObj = false) : schemasAt toks j = [] := by
  cases j <;> simp_all [schemasAt, isObj]

theorem self_mem_schemasAt (toks : List String) (j : J) (h : j.isObj = true) : (toks, j) ∈ schemasAt toks j := by
  cases j <;> simp_all [schemasAt, isObj]

/-- one recursive call on a child, from the induction hypothesis on that child -/
theorem child_eq (toks : List String) (k : String) (v : J) (hl : 2 ≤ toks.length)
    (ht : ∀ t ∈ toks, GoodTok t)
    (hg : ∀ p ∈ schemasAt (toks ++ [k]) v, ∀ t ∈ p.1, GoodTok t)
    (ih : 2 ≤ (toks ++ [k]).length → (∀ p ∈ schemasAt (toks ++ [k]) v, ∀ t ∈ p.1, GoodTok t) →
      aSchema (ptr (toks ++ [k])) (lastTok (toks ++ [k])) (isTopLevel (toks ++ [k])) v =
        (schemasAt (toks ++ [k]) v).flatMap schE) :
    aSchema (Str.join [ptr toks, Str.esc k]) k false v = (schemasAt (toks ++ [k]) v).flatMap schE := by
  cases hv : v.isObj
  · rw [aSchema_nonobj _ _ _ _ hv, schemasAt_nonobj _ _ hv]; rfl
  · have hk : GoodTok k := hg _ (self_mem_schemasAt _ _ hv) k (by simp)
    have := ih (by simp; omega) hg
    rw [lastTok_snoc, isTopLevel_snoc _ _ hl] at this
    rw [join1 toks k ht (by intro e; simp [e] at hl) hk]
    exact this

theorem kw_good {k : String} (h : k ∈ ["definitions", "properties", "patternProperties", "allOf", "anyOf", "oneOf",
    "not", "additionalProperties", "additionalItems", "items"]) : GoodTok k ∧ Str.esc k = k := by
  simp only [List.mem_cons, List.not_mem_nil, or_false] at h
  rcases h with h | h | h | h | h | h | h | h | h | h <;> subst h <;>
    exact ⟨⟨by decide, by decide, by decide⟩, by decide⟩

/-- the positions contributed by one field of a schema object -/
def kidOf (toks : List String) (k : String) (v : J) : List Pos :=
  if mapKeywords.contains k then
    (match v with
     | .obj m => mapKids (toks ++ [k]) m
     | _ => [])
  else if arrKeywords.contains k then
    (match v with
     | .arr xs => arrKids (toks ++ [k]) 0 xs
     | _ => [])
  else if oneKeywords.contains k then schemasAt (toks ++ [k]) v
  else if k = "items" then
    (match v with
     | .arr xs => arrKids (toks ++ ["items"]) 0 xs
     | _ => []) ++ schemasAt (toks ++ ["items"]) v
  else []

theorem kids_cons (toks : List String) (k : String) (v : J) (rest : List (String × J)) :
    kids toks ((k, v) :: rest) = kidOf toks k v ++ kids toks rest := by
  cases v <;> simp only [kids, kidOf]

/-- the log entries contributed by one field of a schema object -/
def fieldOf (key k : String) (v : J) : List Ent :=
  if k = "definitions" ∨ k = "properties" ∨ k = "patternProperties" then
    (match v with
     | .obj kvs => aSchemaMap (Str.join [key, k]) kvs
     | _ => [])
  else if k = "allOf" ∨ k = "anyOf" ∨ k = "oneOf" then
    (match v with
     | .arr xs => aSchemaArr (Str.join [key, k]) 0 xs
     | _ => [])
  else if k = "not" ∨ k = "additionalProperties" ∨ k = "additionalItems" then
    aSchema (Str.join [key, Str.esc k]) k false v
  else if k = "items" then
    (match v with
     | .arr xs => aSchemaArr (Str.join [key, "items"]) 0 xs
     | _ => []) ++ aSchema (Str.join [key, Str.esc "items"]) "items" false v
  else []

theorem aSchemaFields_cons (key k : String) (v : J) (rest : List (String × J)) :
    aSchemaFields key ((k, v) :: rest) = fieldOf key k v ++ aSchemaFields key rest := by
  cases v <;> simp only [aSchemaFields, fieldOf]

theorem mapKw_iff (k : String) :
    mapKeywords.contains k = true ↔ (k = "definitions" ∨ k = "properties" ∨ k = "patternProperties") := by
  simp [mapKeywords]

theorem arrKw_iff (k : String) :
    arrKeywords.contains k = true ↔ (k = "allOf" ∨ k = "anyOf" ∨ k = "oneOf") := by
  simp [arrKeywords]

theorem oneKw_iff (k : String) :
    oneKeywords.contains k = true ↔ (k = "not" ∨ k = "additionalProperties" ∨ k = "additionalItems") := by
  simp [oneKeywords]

theorem good_snoc {toks : List String} {k : String} (ht : ∀ t ∈ toks, GoodTok t) (hk : GoodTok k) :
    ∀ t ∈ toks ++ [k], GoodTok t := by
  intro t; simp only [List.mem_append, List.mem_singleton]
  rintro (h | rfl)
  · exact ht t h
  · exact hk

/-- the type of the induction hypothesis for `aSchema` -/
abbrev IHS (toks : List String) (v : J) : Prop :=
  2 ≤ toks.length → (∀ p ∈ schemasAt toks v, ∀ t ∈ p.1, GoodTok t) →
    aSchema (ptr toks) (lastTok toks) (isTopLevel toks) v = (schemasAt toks v).flatMap schE

abbrev IHM (toks : List String) (m : List (String × J)) : Prop :=
  2 ≤ toks.length → (∀ t ∈ toks, GoodTok t) → (∀ p ∈ mapKids toks m, ∀ t ∈ p.1, GoodTok t) →
    aSchemaMap (ptr toks) m = (mapKids toks m).flatMap schE

abbrev IHA (toks : List String) (xs : List J) : Prop :=
  2 ≤ toks.length → (∀ t ∈ toks, GoodTok t) → (∀ p ∈ arrKids toks 0 xs, ∀ t ∈ p.1, GoodTok t) →
    aSchemaArr (ptr toks) 0 xs = (arrKids toks 0 xs).flatMap schE

theorem field_obj (toks : List String) (k : String) (m : List (String × J)) (hl : 2 ≤ toks.length)
    (ht : ∀ t ∈ toks, GoodTok t) (hg : ∀ p ∈ kidOf toks k (.obj m), ∀ t ∈ p.1, GoodTok t)
    (ihM : IHM (toks ++ [k]) m) (ihS : IHS (toks ++ [k]) (.obj m)) :
    fieldOf (ptr toks) k (.obj m) = (kidOf toks k (.obj m)).flatMap schE := by
  have hne : toks ≠ [] := by intro e; simp [e] at hl
  have hl' : 2 ≤ (toks ++ [k]).length := by simp; omega
  unfold fieldOf kidOf at *
  by_cases h1 : k = "definitions" ∨ k = "properties" ∨ k = "patternProperties"
  · have hc := (mapKw_iff k).2 h1
    have hk := kw_good (k := k) (by simp; tauto)
    rw [if_pos hc] at hg
    rw [if_pos h1, if_pos hc]
    simp only
    rw [join1_lit toks k ht hne hk.1 hk.2]
    exact ihM hl' (good_snoc ht hk.1) hg
  · have hc : ¬ mapKeywords.contains k = true := fun h => h1 ((mapKw_iff k).1 h)
    rw [if_neg hc] at hg
    rw [if_neg h1, if_neg hc]
    by_cases h2 : k = "allOf" ∨ k = "anyOf" ∨ k = "oneOf"
    · have hc2 := (arrKw_iff k).2 h2
      rw [if_pos h2, if_pos hc2]
      rfl
    · have hc2 : ¬ arrKeywords.contains k = true := fun h => h2 ((arrKw_iff k).1 h)
      rw [if_neg hc2] at hg
      rw [if_neg h2, if_neg hc2]
      by_cases h3 : k = "not" ∨ k = "additionalProperties" ∨ k = "additionalItems"
      · have hc3 := (oneKw_iff k).2 h3
        rw [if_pos hc3] at hg
        rw [if_pos h3, if_pos hc3]
        exact child_eq toks k _ hl ht hg ihS
      · have hc3 : ¬ oneKeywords.contains k = true := fun h => h3 ((oneKw_iff k).1 h)
        rw [if_neg hc3] at hg
        rw [if_neg h3, if_neg hc3]
        by_cases h4 : k = "items"
        · subst h4
          rw [if_pos rfl] at hg
          rw [if_pos rfl, if_pos rfl]
          simp only [List.nil_append] at hg ⊢
          exact child_eq toks "items" _ hl ht hg ihS
        · rw [if_neg h4, if_neg h4]; rfl

theorem field_arr (toks : List String) (k : String) (xs : List J) (hl : 2 ≤ toks.length)
    (ht : ∀ t ∈ toks, GoodTok t) (hg : ∀ p ∈ kidOf toks k (.arr xs), ∀ t ∈ p.1, GoodTok t)
    (ihA : IHA (toks ++ [k]) xs) :
    fieldOf (ptr toks) k (.arr xs) = (kidOf toks k (.arr xs)).flatMap schE := by
  have hne : toks ≠ [] := by intro e; simp [e] at hl
  have hl' : 2 ≤ (toks ++ [k]).length := by simp; omega
  unfold fieldOf kidOf at *
  by_cases h1 : k = "definitions" ∨ k = "properties" ∨ k = "patternProperties"
  · have hc := (mapKw_iff k).2 h1
    rw [if_pos h1, if_pos hc]
    rfl
  · have hc : ¬ mapKeywords.contains k = true := fun h => h1 ((mapKw_iff k).1 h)
    rw [if_neg hc] at hg
    rw [if_neg h1, if_neg hc]
    by_cases h2 : k = "allOf" ∨ k = "anyOf" ∨ k = "oneOf"
    · have hc2 := (arrKw_iff k).2 h2
      have hk := kw_good (k := k) (by simp; tauto)
      rw [if_pos hc2] at hg
      rw [if_pos h2, if_pos hc2]
      simp only
      rw [join1_lit toks k ht hne hk.1 hk.2]
      exact ihA hl' (good_snoc ht hk.1) hg
    · have hc2 : ¬ arrKeywords.contains k = true := fun h => h2 ((arrKw_iff k).1 h)
      rw [if_neg hc2] at hg
      rw [if_neg h2, if_neg hc2]
      by_cases h3 : k = "not" ∨ k = "additionalProperties" ∨ k = "additionalItems"
      · have hc3 := (oneKw_iff k).2 h3
        rw [if_pos h3, if_pos hc3]
        simp [aSchema, schemasAt]
      · have hc3 : ¬ oneKeywords.contains k = true := fun h => h3 ((oneKw_iff k).1 h)
        rw [if_neg hc3] at hg
        rw [if_neg h3, if_neg hc3]
        by_cases h4 : k = "items"
        · subst h4
          have hk := kw_good (k := "items") (by simp)
          rw [if_pos rfl] at hg
          rw [if_pos rfl, if_pos rfl]
          simp only [aSchema, schemasAt, List.append_nil] at hg ⊢
          rw [join1_lit toks "items" ht hne hk.1 hk.2]
          exact ihA hl' (good_snoc ht hk.1) hg
        · rw [if_neg h4, if_neg h4]; rfl

theorem field_other (toks : List String) (key k : String) (v : J)
    (h1 : ∀ m, v ≠ .obj m) (h2 : ∀ xs, v ≠ .arr xs) :
    fieldOf key k v = [] ∧ kidOf toks k v = [] := by
  unfold fieldOf kidOf
  cases v with
  | obj m => exact absurd rfl (h1 m)
  | arr xs => exact absurd rfl (h2 xs)
  | _ => simp [aSchema, schemasAt]

mutual
  theorem aSchema_eq : ∀ (toks : List String) (j : J), IHS toks j
    | toks, .obj kvs, hl, hg => by
      have ht : ∀ t ∈ toks, GoodTok t := hg (toks, .obj kvs) (by simp [schemasAt])
      have ih := aSchemaFields_eq toks kvs hl ht (fun p hp => hg p (by rw [schemasAt]; exact List.mem_cons_of_mem _ hp))
      simp only [aSchema, schemasAt, List.flatMap_cons, schE, ih]
      simp
    | _, .null, _, _ | _, .bool _, _, _ | _, .num _, _, _ | _, .str _, _, _ | _, .arr _, _, _ => by
      simp [aSchema, schemasAt]
  theorem aSchemaFields_eq : ∀ (toks : List String) (kvs : List (String × J)), 2 ≤ toks.length →
      (∀ t ∈ toks, GoodTok t) → (∀ p ∈ kids toks kvs, ∀ t ∈ p.1, GoodTok t) →
      aSchemaFields (ptr toks) kvs = (kids toks kvs).flatMap schE
    | _, [], _, _, _ => by simp [aSchemaFields, kids]
    | toks, (k, .obj m) :: rest, hl, ht, hg => by
      rw [kids_cons] at hg
      rw [aSchemaFields_cons, kids_cons, List.flatMap_append,
        aSchemaFields_eq toks rest hl ht (fun p hp => hg p (List.mem_append_right _ hp)),
        field_obj toks k m hl ht (fun p hp => hg p (List.mem_append_left _ hp))
          (aSchemaMap_eq (toks ++ [k]) m) (aSchema_eq (toks ++ [k]) (.obj m))]
    | toks, (k, .arr xs) :: rest, hl, ht, hg => by
      rw [kids_cons] at hg
      rw [aSchemaFields_cons, kids_cons, List.flatMap_append,
        aSchemaFields_eq toks rest hl ht (fun p hp => hg p (List.mem_append_right _ hp)),
        field_arr toks k xs hl ht (fun p hp => hg p (List.mem_append_left _ hp))
          (aSchemaArr_eq (toks ++ [k]) 0 xs)]
    | toks, (k, .null) :: rest, hl, ht, hg | toks, (k, .bool _) :: rest, hl, ht, hg
    | toks, (k, .num _) :: rest, hl, ht, hg | toks, (k, .str _) :: rest, hl, ht, hg => by
      rw [kids_cons] at hg
      rw [aSchemaFields_cons, kids_cons, List.flatMap_append,
        aSchemaFields_eq toks rest hl ht (fun p hp => hg p (List.mem_append_right _ hp)),
        (field_other toks (ptr toks) k _ (by simp) (by simp)).1,
        (field_other toks (ptr toks) k _ (by simp) (by simp)).2]
      rfl
  theorem aSchemaMap_eq : ∀ (toks : List String) (kvs : List (String × J)), IHM toks kvs
    | _, [], _, _, _ => by simp [aSchemaMap, mapKids]
    | toks, (k, v) :: rest, hl, ht, hg => by
      rw [mapKids] at hg
      rw [aSchemaMap, mapKids, List.flatMap_append,
        aSchemaMap_eq toks rest hl ht (fun p hp => hg p (List.mem_append_right _ hp)),
        child_eq toks k v hl ht (fun p hp => hg p (List.mem_append_left _ hp)) (aSchema_eq (toks ++ [k]) v)]
  theorem aSchemaArr_eq : ∀ (toks : List String) (i : Nat) (xs : List J), 2 ≤ toks.length →
      (∀ t ∈ toks, GoodTok t) → (∀ p ∈ arrKids toks i xs, ∀ t ∈ p.1, GoodTok t) →
      aSchemaArr (ptr toks) i xs = (arrKids toks i xs).flatMap schE
    | _, _, [], _, _, _ => by simp [aSchemaArr, arrKids]
    | toks, i, v :: rest, hl, ht, hg => by
      rw [arrKids] at hg
      rw [aSchemaArr, arrKids, List.flatMap_append,
        aSchemaArr_eq toks (i + 1) rest hl ht (fun p hp => hg p (List.mem_append_right _ hp))]
      unfold Str.itoa
      rw [child_eq toks (toString i) v hl ht (fun p hp => hg p (List.mem_append_left _ hp))
        (aSchema_eq (toks ++ [toString i]) v)]
end

end IndexProof
