import Verif.Model.RemoveUnused
import Verif.Proofs.JsonLemmas

/-!
  Lemmas on the model of the RemoveUnused phases (Verif/Model/RemoveUnused.lean): the two outcomes of
  a single pass, and the invariants of the removal loop.
-/

namespace Proofs.RemoveUnused
open J _root_.RemoveUnused

theorem getObj_of_not_obj (d : J) (k : String) (h : d.isObj = false) : d.getObj k = [] := by
  cases d <;> simp_all [isObj, getObj, get?]

theorem getObj_set_self (d : J) (k : String) (kvs : List (String × J)) (h : d.isObj = true) :
    (d.set k (.obj kvs)).getObj k = kvs := by
  unfold getObj
  rw [get?_set_self d k _ h]

/-- `removeShared` on the three kinds of keys -/
theorem get?_removeShared_parameters (d : J) : (removeShared d).get? "parameters" = none := by
  cases d <;> simp [removeShared, erase, get?]
  rw [lookup_eraseKv_ne _ _ _ (by decide), lookup_eraseKv_self]

theorem get?_removeShared_responses (d : J) : (removeShared d).get? "responses" = none := by
  cases d <;> simp [removeShared, erase, get?]
  exact lookup_eraseKv_self _ _

theorem get?_removeShared_ne (d : J) (k : String) (h1 : k ≠ "parameters") (h2 : k ≠ "responses") :
    (removeShared d).get? k = d.get? k := by
  cases d <;> simp [removeShared, erase, get?]
  rw [lookup_eraseKv_ne _ _ _ h2, lookup_eraseKv_ne _ _ _ h1]

/-- the definitions a pass keeps -/
def keep (f : Facts) (x : Ext) (d : J) : List (String × J) :=
  (d.getObj "definitions").filter fun kv => (usedNames f x d).contains kv.1

theorem singlePass_eq (f : Facts) (x : Ext) (d : J) :
    singlePass f x d =
      if (keep f x d).length = (d.getObj "definitions").length then (d, false)
      else (d.set "definitions" (.obj (keep f x d)), true) := rfl

/-- a pass that removes nothing returns its input, all of whose definitions are used -/
theorem singlePass_false (f : Facts) (x : Ext) (d : J) (h : (singlePass f x d).2 = false) :
    (singlePass f x d).1 = d ∧ keep f x d = d.getObj "definitions" := by
  rw [singlePass_eq] at h ⊢
  split at h
  · rename_i e
    rw [if_pos e]
    exact ⟨rfl, List.filter_eq_self.2 (List.length_filter_eq_length_iff.1 e)⟩
  · cases h

/-- a productive pass works on an object and strictly shrinks its definitions -/
theorem singlePass_true (f : Facts) (x : Ext) (d : J) (h : (singlePass f x d).2 = true) :
    d.isObj = true ∧ (singlePass f x d).1 = d.set "definitions" (.obj (keep f x d)) ∧
    (keep f x d).length < (d.getObj "definitions").length := by
  rw [singlePass_eq] at h ⊢
  split at h
  · cases h
  · rename_i e
    rw [if_neg e]
    refine ⟨?_, rfl, ?_⟩
    · cases hd : d.isObj
      · exfalso; apply e
        simp [keep, getObj_of_not_obj d _ hd]
      · rfl
    · have := List.length_filter_le (fun kv => (usedNames f x d).contains kv.1) (d.getObj "definitions")
      unfold keep at e ⊢
      omega

theorem singlePass_getObj (f : Facts) (x : Ext) (d : J) :
    (singlePass f x d).1.getObj "definitions" = keep f x d := by
  cases h : (singlePass f x d).2
  · obtain ⟨h1, h2⟩ := singlePass_false f x d h
    rw [h1, h2]
  · obtain ⟨h1, h2, _⟩ := singlePass_true f x d h
    rw [h2, getObj_set_self d _ _ h1]

theorem singlePass_get?_ne (f : Facts) (x : Ext) (d : J) (k : String) (hk : k ≠ "definitions") :
    (singlePass f x d).1.get? k = d.get? k := by
  rw [singlePass_eq]
  split
  · rfl
  · exact get?_set_ne d _ _ _ hk

theorem removeUnused_ne_outOfFuel (f : Facts) (x : Ext) :
    ∀ (fuel : Nat) (d : J), fuel ≥ (d.getObj "definitions").length + 1 → removeUnused f x fuel d ≠ .outOfFuel := by
  intro fuel
  induction fuel with
  | zero => intro d h; omega
  | succ n ih =>
    intro d h
    simp only [removeUnused]
    split
    · rename_i hp
      apply ih
      have := (singlePass_true f x d hp).2.2
      rw [singlePass_getObj]
      omega
    · intro h; cases h

/-- invariant of the loop: the result is a fixed point of the pass, its definitions are a sub-list of the
    original ones, and every other key is as it was -/
theorem removeUnused_ok (f : Facts) (x : Ext) :
    ∀ (fuel : Nat) (d d' : J), removeUnused f x fuel d = .ok d' →
      keep f x d' = d'.getObj "definitions" ∧
      (d'.getObj "definitions").Sublist (d.getObj "definitions") ∧
      ∀ k, k ≠ "definitions" → d'.get? k = d.get? k := by
  intro fuel
  induction fuel with
  | zero => intro d d' h; cases h
  | succ n ih =>
    intro d d' h
    simp only [removeUnused] at h
    split at h
    · obtain ⟨h1, h2, h3⟩ := ih _ _ h
      refine ⟨h1, ?_, ?_⟩
      · rw [singlePass_getObj] at h2
        exact h2.trans List.filter_sublist
      · intro k hk
        rw [h3 k hk, singlePass_get?_ne f x d k hk]
    · rename_i hp
      cases h
      obtain ⟨h1, h2⟩ := singlePass_false f x d (by simpa using hp)
      rw [h1]
      exact ⟨h2, List.Sublist.refl _, fun _ _ => rfl⟩

end Proofs.RemoveUnused
