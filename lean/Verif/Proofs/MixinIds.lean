import Verif.Proofs.MixinLoop
import Std.Data.String.ToNat

/-!
  C18: the renaming of colliding operation ids keeps all ids distinct.

  * strings: `x ++ "Mixin" ++ toString i` determines `x` and `i`, and is a "Mixin-suffix" of `x`;
  * lists: appending ids one by one, renaming those already present, keeps the list duplicate-free
    as long as no original id is a Mixin-suffix of another one (`renameIds_good`);
  * model: `renameOps`/`mergePaths`/`step` perform exactly this renaming on the recorded ids, and
    the recorded ids are the ids of the accumulated document.
-/

namespace Proofs.Mixin
open J Spec.Mixin

/-! ## strings -/

/-- the id given to a colliding operation of mixin number `i` -/
def sfx (x : String) (i : Nat) : String := x ++ "Mixin" ++ toString i

theorem split_at_last {α} (c : α) (l₁ r₁ l₂ r₂ : List α) (h1 : c ∉ r₁) (h2 : c ∉ r₂)
    (h : l₁ ++ c :: r₁ = l₂ ++ c :: r₂) : l₁ = l₂ ∧ r₁ = r₂ := by
  induction l₁ generalizing l₂ with
  | nil =>
    cases l₂ with
    | nil => simpa using h
    | cons y l₂ =>
      simp only [List.nil_append, List.cons_append, List.cons.injEq] at h
      exfalso; apply h1; rw [h.2]; simp
  | cons x l₁ ih =>
    cases l₂ with
    | nil =>
      simp only [List.nil_append, List.cons_append, List.cons.injEq] at h
      exfalso; apply h2; rw [← h.2]; simp
    | cons y l₂ =>
      simp only [List.cons_append, List.cons.injEq] at h
      obtain ⟨e1, e2⟩ := ih l₂ h.2
      exact ⟨by rw [h.1, e1], e2⟩

theorem digits_no_n (i : Nat) : 'n' ∉ (toString i).toList := by
  intro h
  rw [Nat.toString_eq_repr, Nat.toList_repr] at h
  have := Nat.isDigit_of_mem_toDigits (by decide) (by decide) h
  revert this; decide

theorem sfx_toList (x : String) (i : Nat) :
    (sfx x i).toList = (x.toList ++ ['M', 'i', 'x', 'i']) ++ 'n' :: (toString i).toList := by
  simp [sfx, String.toList_append]

/-- the renamed id determines the original id and the mixin number -/
theorem sfx_inj (x y : String) (i j : Nat) (h : sfx x i = sfx y j) : x = y ∧ i = j := by
  have h' := congrArg String.toList h
  rw [sfx_toList, sfx_toList] at h'
  obtain ⟨e1, e2⟩ := split_at_last 'n' _ _ _ _ (digits_no_n i) (digits_no_n j) h'
  have e1' := List.append_cancel_right e1
  refine ⟨String.toList_inj.1 e1', ?_⟩
  have := String.toList_inj.1 e2
  simpa using this

theorem isDigit_of_char (c : Char) (h : c.isDigit = true) : Doc.isDigit c = true := by
  simp only [Char.isDigit, Bool.and_eq_true, decide_eq_true_eq] at h
  simp only [Doc.isDigit, decide_eq_true_eq]
  exact ⟨Char.le_def.2 (by simpa using h.1), Char.le_def.2 (by simpa using h.2)⟩

/-- the renamed id is a Mixin-suffix of the original one -/
theorem mixinSuffixOf_sfx (x : String) (i : Nat) : mixinSuffixOf x (sfx x i) = true := by
  unfold mixinSuffixOf
  have e : (sfx x i).toList = x.toList ++ ("Mixin".toList ++ (toString i).toList) := by
    simp [sfx, String.toList_append]
  simp only [e, List.drop_left, Bool.and_eq_true, decide_eq_true_eq]
  refine ⟨List.isPrefixOf_iff_prefix.2 (List.prefix_append _ _),
    ⟨List.isPrefixOf_iff_prefix.2 (List.prefix_append _ _), ?_⟩, ?_⟩
  · have : (List.drop 5 ("Mixin".toList ++ (toString i).toList)) = (toString i).toList := by
      simp
    rw [this, Nat.toString_eq_repr, Nat.toList_repr]
    intro h
    have := Nat.length_toDigits_pos (b := 10) (n := i)
    rw [h] at this
    simp at this
  · have : (List.drop 5 ("Mixin".toList ++ (toString i).toList)) = (toString i).toList := by
      simp
    rw [this, Nat.toString_eq_repr, Nat.toList_repr, List.all_eq_true]
    intro c hc
    exact isDigit_of_char c (Nat.isDigit_of_mem_toDigits (by decide) (by decide) hc)

theorem sfx_ne_empty (x : String) (i : Nat) : sfx x i ≠ "" := by
  intro h
  have := congrArg String.toList h
  rw [sfx_toList] at this
  simp at this

/-! ## lists of ids -/

/-- the ids recorded while adding operations with ids `origs` in mixin number `idx` -/
def renameIds (idx : Nat) (ids origs : List String) : List String :=
  origs.foldl (fun acc id => acc ++ [if acc.contains id then sfx id idx else id]) ids

theorem renameIds_nil (idx : Nat) (ids : List String) : renameIds idx ids [] = ids := rfl

theorem renameIds_cons (idx : Nat) (ids : List String) (id : String) (origs : List String) :
    renameIds idx ids (id :: origs) =
      renameIds idx (ids ++ [if ids.contains id then sfx id idx else id]) origs := rfl

theorem renameIds_append (idx : Nat) (ids a b : List String) :
    renameIds idx ids (a ++ b) = renameIds idx (renameIds idx ids a) b := by
  simp [renameIds, List.foldl_append]

/-- `A`: the original ids of all documents; no one is a Mixin-suffix of another -/
def NoClash (A : List String) : Prop := ∀ x ∈ A, ∀ y ∈ A, mixinSuffixOf x y = false

/-- the recorded ids while mixin number `idx` is being merged, `done` being the original ids of its
    operations added so far: no duplicates, and every id is an original one or a renamed one -/
structure IdsInv (A : List String) (idx : Nat) (done ids : List String) : Prop where
  nodup : ids.Nodup
  form : ∀ y ∈ ids, y ∈ A ∨ (∃ z j, j < idx ∧ y = sfx z j) ∨ (∃ z ∈ done, y = sfx z idx)

theorem renameIds_inv (A : List String) (hA : NoClash A) (idx : Nat) (origs : List String) :
    ∀ (done ids : List String), IdsInv A idx done ids → (done ++ origs).Nodup → (∀ x ∈ origs, x ∈ A) →
      IdsInv A idx (done ++ origs) (renameIds idx ids origs) := by
  induction origs with
  | nil => intro done ids h _ _; simpa [renameIds_nil] using h
  | cons id rest ih =>
    intro done ids h hnd hin
    rw [renameIds_cons]
    have hid : id ∉ done := by
      intro hm
      have := (List.nodup_append.1 hnd).2.2 id hm id (by simp)
      exact this rfl
    have hidA : id ∈ A := hin id (by simp)
    have e : done ++ id :: rest = (done ++ [id]) ++ rest := by simp
    rw [e] at hnd ⊢
    apply ih (done ++ [id]) _ _ hnd (fun x hx => hin x (by simp [hx]))
    by_cases hc : ids.contains id = true
    · -- renamed
      simp only [hc, if_true]
      have hnew : sfx id idx ∉ ids := by
        intro hm
        rcases h.form _ hm with h1 | ⟨z, j, hj, h2⟩ | ⟨z, hz, h3⟩
        · have := hA id hidA _ h1
          rw [mixinSuffixOf_sfx] at this
          exact absurd this (by decide)
        · have := (sfx_inj _ _ _ _ h2).2
          omega
        · have := (sfx_inj _ _ _ _ h3).1
          exact hid (this ▸ hz)
      refine ⟨?_, ?_⟩
      · rw [List.nodup_append]
        refine ⟨h.nodup, by simp, ?_⟩
        intro a ha b hb
        simp only [List.mem_cons, List.not_mem_nil, or_false] at hb
        subst hb
        intro e; exact hnew (e ▸ ha)
      · intro y hy
        simp only [List.mem_append, List.mem_cons, List.not_mem_nil, or_false] at hy
        rcases hy with hy | rfl
        · rcases h.form y hy with h1 | h2 | ⟨z, hz, h3⟩
          · exact Or.inl h1
          · exact Or.inr (Or.inl h2)
          · exact Or.inr (Or.inr ⟨z, by simp [hz], h3⟩)
        · exact Or.inr (Or.inr ⟨id, by simp, rfl⟩)
    · -- kept
      have hc' : id ∉ ids := by simpa using hc
      simp only [hc, Bool.false_eq_true, if_false]
      refine ⟨?_, ?_⟩
      · rw [List.nodup_append]
        refine ⟨h.nodup, by simp, ?_⟩
        intro a ha b hb
        simp only [List.mem_cons, List.not_mem_nil, or_false] at hb
        subst hb
        intro e; exact hc' (e ▸ ha)
      · intro y hy
        simp only [List.mem_append, List.mem_cons, List.not_mem_nil, or_false] at hy
        rcases hy with hy | rfl
        · rcases h.form y hy with h1 | h2 | ⟨z, hz, h3⟩
          · exact Or.inl h1
          · exact Or.inr (Or.inl h2)
          · exact Or.inr (Or.inr ⟨z, by simp [hz], h3⟩)
        · exact Or.inl hidA

/-- between two mixins -/
def GoodIds (A : List String) (idx : Nat) (ids : List String) : Prop := IdsInv A idx [] ids

/-- merging one mixin keeps the recorded ids distinct -/
theorem renameIds_good (A : List String) (hA : NoClash A) (idx : Nat) (ids origs : List String)
    (h : GoodIds A idx ids) (hnd : origs.Nodup) (hin : ∀ x ∈ origs, x ∈ A) :
    GoodIds A (idx + 1) (renameIds idx ids origs) := by
  have := renameIds_inv A hA idx origs [] ids h (by simpa using hnd) hin
  refine ⟨this.nodup, ?_⟩
  intro y hy
  rcases this.form y hy with h1 | ⟨z, j, hj, h2⟩ | ⟨z, _, h3⟩
  · exact Or.inl h1
  · exact Or.inr (Or.inl ⟨z, j, by omega, h2⟩)
  · exact Or.inr (Or.inl ⟨z, idx, by omega, h3⟩)

/-! ## renameOps -/

/-- non-empty ids of the operations of `pi` under the keys `ks` -/
def idsOf (ks : List String) (pi : J) : List String :=
  (ks.filterMap fun m => (pi.get? m).map (·.getStr "operationId")).filter (· ≠ "")

/-- the loop body of `renameOps` when empty ids are skipped -/
def renBody (idx : Nat) (acc : J × List String) (m : String) : J × List String :=
  match acc.1.get? m with
  | some op =>
    if op.getStr "operationId" = "" then acc
    else
      (acc.1.set m (op.set "operationId"
          (.str (if acc.2.contains (op.getStr "operationId") then sfx (op.getStr "operationId") idx
                 else op.getStr "operationId"))),
       acc.2 ++ [if acc.2.contains (op.getStr "operationId") then sfx (op.getStr "operationId") idx
                 else op.getStr "operationId"])
  | none => acc

theorem renameOps_eq (f : Facts) (hs : f.mixinSkipsEmptyIDs = true) (idx : Nat) (ids : List String) (pi : J) :
    Mixin.renameOps f idx ids pi = (Mixin.opKeys f pi).foldl (renBody idx) (pi, ids) := by
  unfold Mixin.renameOps
  congr 1
  funext acc m
  unfold renBody
  cases acc.1.get? m with
  | none => rfl
  | some op => simp [hs, sfx]

theorem idsOf_nil (pi : J) : idsOf [] pi = [] := rfl

theorem idsOf_cons_none (m : String) (ks : List String) (pi : J) (h : pi.get? m = none) :
    idsOf (m :: ks) pi = idsOf ks pi := by
  simp [idsOf, h]

theorem idsOf_cons_some (m : String) (ks : List String) (pi op : J) (h : pi.get? m = some op) :
    idsOf (m :: ks) pi =
      if op.getStr "operationId" = "" then idsOf ks pi else op.getStr "operationId" :: idsOf ks pi := by
  by_cases he : op.getStr "operationId" = "" <;> simp [idsOf, h, he]

theorem idsOf_congr (ks : List String) (a b : J) (h : ∀ m ∈ ks, a.get? m = b.get? m) :
    idsOf ks a = idsOf ks b := by
  unfold idsOf
  rw [List.filterMap_congr' (fun m hm => by rw [h m hm])]

theorem isObj_of_get? {j : J} {k : String} {v : J} (h : j.get? k = some v) : j.isObj = true := by
  cases j <;> simp_all [get?, isObj]

theorem isObj_of_getStr {j : J} {k : String} (h : j.getStr k ≠ "") : j.isObj = true := by
  cases j <;> simp_all [getStr, get?, isObj]

/-- the fold of `renameOps` over distinct keys: the ids it records are the renamed ids of the
    operations, these are the ids found in the rewritten path item, and other keys are untouched -/
theorem renFold (idx : Nat) (ks : List String) (hnd : ks.Nodup) :
    ∀ (pi : J) (ids : List String),
      (ks.foldl (renBody idx) (pi, ids)).2 = renameIds idx ids (idsOf ks pi) ∧
      (ks.foldl (renBody idx) (pi, ids)).2 = ids ++ idsOf ks (ks.foldl (renBody idx) (pi, ids)).1 ∧
      (∀ m, m ∉ ks → (ks.foldl (renBody idx) (pi, ids)).1.get? m = pi.get? m) ∧
      (∀ m, ((ks.foldl (renBody idx) (pi, ids)).1.get? m).isSome = (pi.get? m).isSome) := by
  induction ks with
  | nil => intro pi ids; simp [idsOf_nil, renameIds_nil]
  | cons m ks ih =>
    intro pi ids
    simp only [List.nodup_cons] at hnd
    simp only [List.foldl_cons]
    cases hop : pi.get? m with
    | none =>
      have hb : renBody idx (pi, ids) m = (pi, ids) := by simp [renBody, hop]
      rw [hb, idsOf_cons_none _ _ _ hop]
      obtain ⟨h1, h2, h3, h4⟩ := ih hnd.2 pi ids
      refine ⟨h1, ?_, fun m' hm' => h3 m' (fun h => hm' (List.mem_cons_of_mem _ h)), h4⟩
      rw [idsOf_cons_none _ _ _ (by rw [h3 m hnd.1]; exact hop)]
      exact h2
    | some op =>
      by_cases he : op.getStr "operationId" = ""
      · have hb : renBody idx (pi, ids) m = (pi, ids) := by simp [renBody, hop, he]
        rw [hb, idsOf_cons_some _ _ _ _ hop]
        simp only [he, if_true]
        obtain ⟨h1, h2, h3, h4⟩ := ih hnd.2 pi ids
        refine ⟨h1, ?_, fun m' hm' => h3 m' (fun h => hm' (List.mem_cons_of_mem _ h)), h4⟩
        rw [idsOf_cons_some _ _ _ _ (by rw [h3 m hnd.1]; exact hop)]
        simp only [he, if_true]
        exact h2
      · -- the id is recorded, possibly renamed
        generalize hid' : (if ids.contains (op.getStr "operationId") then sfx (op.getStr "operationId") idx
                 else op.getStr "operationId") = id'
        have hb : renBody idx (pi, ids) m =
            (pi.set m (op.set "operationId" (.str id')), ids ++ [id']) := by
          simp only [renBody, hop, he, if_false, hid']
        have hpi : pi.isObj = true := isObj_of_get? hop
        have hopo : op.isObj = true := isObj_of_getStr he
        have hid'ne : id' ≠ "" := by
          rw [← hid']; split
          · exact sfx_ne_empty _ _
          · exact he
        rw [hb, idsOf_cons_some _ _ _ _ hop]
        simp only [he, if_false]
        obtain ⟨h1, h2, h3, h4⟩ := ih hnd.2 (pi.set m (op.set "operationId" (.str id'))) (ids ++ [id'])
        have hrest : idsOf ks (pi.set m (op.set "operationId" (.str id'))) = idsOf ks pi :=
          idsOf_congr _ _ _ (fun m' hm' => get?_set_ne _ _ _ _ (fun e => hnd.1 (e ▸ hm')))
        refine ⟨?_, ?_, ?_, ?_⟩
        · rw [h1, hrest, renameIds_cons, hid']
        · have hm' : (List.foldl (renBody idx) (pi.set m (op.set "operationId" (.str id')), ids ++ [id']) ks).1.get? m
              = some (op.set "operationId" (.str id')) := by
            rw [h3 m hnd.1, get?_set_self _ _ _ hpi]
          rw [idsOf_cons_some _ _ _ _ hm', getStr_set_self _ _ _ hopo]
          simp only [hid'ne, if_false]
          rw [h2]; simp
        · intro m' hm'
          simp only [List.mem_cons, not_or] at hm'
          rw [h3 m' hm'.2, get?_set_ne _ _ _ _ hm'.1]
        · intro m'
          rw [h4 m']
          by_cases e : m' = m
          · subst e; rw [get?_set_self _ _ _ hpi, hop]; rfl
          · rw [get?_set_ne _ _ _ _ e]

theorem pathItemIDs_eq (f : Facts) (hs : f.mixinSkipsEmptyIDs = true) (pi : J) :
    Mixin.pathItemIDs f pi = idsOf (Mixin.opKeys f pi) pi := by
  unfold Mixin.pathItemIDs idsOf
  apply List.filter_congr
  intro id _
  simp [hs]

theorem opKeys_congr (f : Facts) (a b : J) (h : ∀ m, (a.get? m).isSome = (b.get? m).isSome) :
    Mixin.opKeys f a = Mixin.opKeys f b := by
  unfold Mixin.opKeys
  apply List.filter_congr
  intro m _
  exact h m

theorem renameOps_spec (f : Facts) (hs : f.mixinSkipsEmptyIDs = true) (hnd : f.mixinMethods.Nodup)
    (idx : Nat) (ids : List String) (pi : J) :
    (Mixin.renameOps f idx ids pi).2 = renameIds idx ids (Mixin.pathItemIDs f pi) ∧
    (Mixin.renameOps f idx ids pi).2 = ids ++ Mixin.pathItemIDs f (Mixin.renameOps f idx ids pi).1 := by
  have hk : (Mixin.opKeys f pi).Nodup := List.Sublist.nodup List.filter_sublist hnd
  obtain ⟨h1, h2, _, h4⟩ := renFold idx (Mixin.opKeys f pi) hk pi ids
  rw [renameOps_eq f hs, pathItemIDs_eq f hs, pathItemIDs_eq f hs]
  refine ⟨h1, ?_⟩
  rw [opKeys_congr f _ pi h4]
  exact h2

/-! ## mergePaths -/

/-- the entries the first-wins fold appends -/
def added (P : String → Bool) : List (String × J) → List (String × J) → List (String × J)
  | _, [] => []
  | pk, kv :: mk =>
    if P kv.1 then
      if (lookup kv.1 pk).isSome then added P pk mk else kv :: added P (pk ++ [kv]) mk
    else added P pk mk

theorem added_nil (P : String → Bool) (pk : List (String × J)) : added P pk [] = [] := by
  simp [added]

theorem added_cons_skip (P : String → Bool) (pk mk : List (String × J)) (kv : String × J)
    (hP : P kv.1 = false) : added P pk (kv :: mk) = added P pk mk := by
  simp [added, hP]

theorem added_cons_hit (P : String → Bool) (pk mk : List (String × J)) (kv : String × J)
    (hP : P kv.1 = true) (hs : (lookup kv.1 pk).isSome = true) :
    added P pk (kv :: mk) = added P pk mk := by
  simp [added, hP, hs]

theorem added_cons_new (P : String → Bool) (pk mk : List (String × J)) (kv : String × J)
    (hP : P kv.1 = true) (hs : (lookup kv.1 pk).isSome = false) :
    added P pk (kv :: mk) = kv :: added P (pk ++ [kv]) mk := by
  simp [added, hP, hs]

theorem added_sublist (P : String → Bool) (pk mk : List (String × J)) :
    (added P pk mk).Sublist (mk.filter fun kv => P kv.1) := by
  induction mk generalizing pk with
  | nil => simp [added_nil]
  | cons kv mk ih =>
    cases hP : P kv.1
    · rw [added_cons_skip _ _ _ _ hP]; simp only [List.filter_cons, hP]; exact ih pk
    · simp only [List.filter_cons, hP, if_true]
      cases hs : (lookup kv.1 pk).isSome
      · rw [added_cons_new _ _ _ _ hP hs]; exact List.Sublist.cons_cons _ (ih _)
      · rw [added_cons_hit _ _ _ _ hP hs]; exact List.Sublist.cons _ (ih pk)

/-- ids of the path items among `kvs` -/
def idsIn (f : Facts) (kvs : List (String × J)) : List String :=
  (kvs.filter fun kv => Doc.isPathKey kv.1).flatMap fun kv => Mixin.pathItemIDs f kv.2

theorem getOpIDs_eq (f : Facts) (d : J) : Mixin.getOpIDs f d = idsIn f (d.getObj "paths") := rfl

theorem idsIn_append (f : Facts) (a b : List (String × J)) : idsIn f (a ++ b) = idsIn f a ++ idsIn f b := by
  simp [idsIn]

/-- the ids `mergePaths` records are the renamed ids of the path items it adds, and they are the ids
    found in the merged paths -/
theorem pathsFold_ids (f : Facts) (hs : f.mixinSkipsEmptyIDs = true) (hnd : f.mixinMethods.Nodup)
    (idx : Nat) (mp : List (String × J)) :
    ∀ (pk : List (String × J)) (acc : Mixin.PathsAcc), acc.paths.map (·.1) = pk.map (·.1) →
      idsIn f acc.paths = acc.ids →
      (mp.foldl (pathsBody f idx) acc).ids =
        renameIds idx acc.ids ((added Doc.isPathKey pk mp).flatMap fun kv => Mixin.pathItemIDs f kv.2) ∧
      idsIn f (mp.foldl (pathsBody f idx) acc).paths = (mp.foldl (pathsBody f idx) acc).ids := by
  induction mp with
  | nil => intro pk acc _ h; simp [added_nil, renameIds_nil, h]
  | cons kv mp ih =>
    intro pk acc h hi
    simp only [List.foldl_cons]
    cases hP : Doc.isPathKey kv.1
    · have : pathsBody f idx acc kv = acc := by simp [pathsBody, hP]
      rw [this, added_cons_skip _ _ _ _ hP]
      exact ih pk acc h hi
    · cases hl : (lookup kv.1 pk).isSome
      · have hl' : (lookup kv.1 acc.paths).isSome = false := by rw [isSome_lookup_of_keys h]; exact hl
        have hb : pathsBody f idx acc kv =
            ⟨acc.paths ++ [(kv.1, (Mixin.renameOps f idx acc.ids kv.2).1)],
              (Mixin.renameOps f idx acc.ids kv.2).2, acc.warns⟩ := by
          simp [pathsBody, hP, hl']
        rw [hb, added_cons_new _ _ _ _ hP hl]
        obtain ⟨s1, s2⟩ := renameOps_spec f hs hnd idx acc.ids kv.2
        have := ih (pk ++ [kv]) ⟨acc.paths ++ [(kv.1, (Mixin.renameOps f idx acc.ids kv.2).1)],
              (Mixin.renameOps f idx acc.ids kv.2).2, acc.warns⟩ (by simp [h])
          (by
            simp only
            rw [idsIn_append, hi, s2]
            simp [idsIn, hP])
        simp only [List.flatMap_cons]
        rw [renameIds_append, ← s1]
        exact this
      · have hl' : (lookup kv.1 acc.paths).isSome = true := by rw [isSome_lookup_of_keys h]; exact hl
        have hb : pathsBody f idx acc kv = ⟨acc.paths, acc.ids, acc.warns ++ [("paths", kv.1)]⟩ := by
          simp [pathsBody, hP, hl']
        rw [hb, added_cons_hit _ _ _ _ hP hl]
        exact ih pk ⟨acc.paths, acc.ids, acc.warns ++ [("paths", kv.1)]⟩ h hi

theorem mergePaths_ids (f : Facts) (hs : f.mixinSkipsEmptyIDs = true) (hnd : f.mixinMethods.Nodup)
    (idx : Nat) (pp : List (String × J)) (ids : List String) (mp : List (String × J))
    (hi : idsIn f pp = ids) :
    (Mixin.mergePaths f idx pp ids mp).ids =
      renameIds idx ids ((added Doc.isPathKey pp mp).flatMap fun kv => Mixin.pathItemIDs f kv.2) ∧
    idsIn f (Mixin.mergePaths f idx pp ids mp).paths = (Mixin.mergePaths f idx pp ids mp).ids := by
  rw [mergePaths_eq]
  exact pathsFold_ids f hs hnd idx mp pp ⟨pp, ids, []⟩ rfl hi

/-! ## the recorded ids and the ids of a document -/

theorem perm_flatMap_pointwise {α β} (l : List α) (g h : α → List β) (e : ∀ a ∈ l, (g a).Perm (h a)) :
    (l.flatMap g).Perm (l.flatMap h) := by
  induction l with
  | nil => simp
  | cons a l ih =>
    simp only [List.flatMap_cons]
    exact List.Perm.append (e a (by simp)) (ih (fun b hb => e b (by simp [hb])))

theorem sublist_flatMap {α β} {l₁ l₂ : List α} (g : α → List β) (h : l₁.Sublist l₂) :
    (l₁.flatMap g).Sublist (l₂.flatMap g) := by
  induction h with
  | slnil => simp
  | cons a _ ih =>
    simp only [List.flatMap_cons]
    exact List.Sublist.trans ih (List.sublist_append_right _ _)
  | cons_cons a _ ih =>
    simp only [List.flatMap_cons]
    exact List.Sublist.append (List.Sublist.refl _) ih

theorem idsOf_opKeys (f : Facts) (pi : J) : idsOf (Mixin.opKeys f pi) pi = idsOf f.mixinMethods pi := by
  unfold idsOf Mixin.opKeys
  rw [List.filterMap_filter]
  congr 1
  apply List.filterMap_congr'
  intro m _
  cases pi.get? m <;> simp

theorem idsOf_perm (ks ks' : List String) (h : ks.Perm ks') (pi : J) : (idsOf ks pi).Perm (idsOf ks' pi) :=
  List.Perm.filter _ (List.Perm.filterMap _ h)

theorem opIds_eq (d : J) : opIds d = (Doc.pathItems d).flatMap fun kv => idsOf Doc.methods kv.2 := by
  unfold opIds idsOf
  rw [List.filter_flatMap]

/-- the ids `getOpIDs` records are the non-empty operation ids of the document, up to order -/
theorem getOpIDs_perm (f : Facts) (hm : f.mixinMethods.Perm Doc.methods) (hs : f.mixinSkipsEmptyIDs = true)
    (d : J) : (Mixin.getOpIDs f d).Perm (opIds d) := by
  rw [opIds_eq]
  unfold Mixin.getOpIDs
  apply perm_flatMap_pointwise
  intro kv _
  rw [pathItemIDs_eq f hs, idsOf_opKeys]
  exact idsOf_perm _ _ hm _

/-! ## the loop -/

/-- all non-empty operation ids of the merged document are pairwise distinct -/
theorem mixin_ids_nodup (f : Facts) (hm : f.mixinMethods.Perm Doc.methods) (hs : f.mixinSkipsEmptyIDs = true)
    (p : J) (ms : List J) (r : J × List Mixin.Warn) (hp : p.isObj = true) (hr : Mixin.mixin f p ms = .ok r)
    (hu : ∀ d ∈ p :: ms, (opIds d).Nodup) (hc : NoClash ((p :: ms).flatMap opIds)) :
    (opIds r.1).Nodup := by
  have hnd : f.mixinMethods.Nodup := hm.nodup_iff.2 (by decide)
  have hA : ∀ d ∈ p :: ms, ∀ x ∈ Mixin.getOpIDs f d, x ∈ (p :: ms).flatMap opIds := by
    intro d hd x hx
    exact List.mem_flatMap.2 ⟨d, hd, (getOpIDs_perm f hm hs d).mem_iff.1 hx⟩
  obtain ⟨st', e, hinv⟩ := mixin_inv f
    (fun i _ st => st.doc.isObj = true ∧ Mixin.getOpIDs f st.doc = st.ids ∧
      GoodIds ((p :: ms).flatMap opIds) i st.ids)
    (fun m => (Mixin.getOpIDs f m).Nodup ∧ ∀ x ∈ Mixin.getOpIDs f m, x ∈ (p :: ms).flatMap opIds)
    (by
      intro i ds st m st' ⟨ho, hids, hg⟩ ⟨hmn, hmA⟩ hstep
      obtain ⟨p1, w1, sf⟩ := step_facts f i st m st' hstep ho
      obtain ⟨m1, m2⟩ := mergePaths_ids f hs hnd i (st.doc.getObj "paths") st.ids (m.getObj "paths")
        (by rw [← getOpIDs_eq]; exact hids)
      have hsub : ((added Doc.isPathKey (st.doc.getObj "paths") (m.getObj "paths")).flatMap
          fun kv => Mixin.pathItemIDs f kv.2).Sublist (Mixin.getOpIDs f m) :=
        sublist_flatMap _ (added_sublist _ _ _)
      refine ⟨sf.isObj, ?_, ?_⟩
      · rw [getOpIDs_eq, sf.paths, sf.ids]; exact m2
      · rw [sf.ids, m1]
        exact renameIds_good _ hc i st.ids _ hg (hsub.nodup hmn) (fun x hx => hmA x (hsub.subset hx)))
    p ms r hr
    (fun m hmem => ⟨(getOpIDs_perm f hm hs m).nodup_iff.2 (hu m (by simp [hmem])), hA m (by simp [hmem])⟩)
    (by
      refine ⟨by rw [initPrimary_isObj]; exact hp, ?_, ?_, ?_⟩
      · show Mixin.getOpIDs f (Mixin.initPrimary p) = Mixin.getOpIDs f p
        rw [getOpIDs_eq, getOpIDs_eq, initPrimary_paths p hp]
      · exact (getOpIDs_perm f hm hs p).nodup_iff.2 (hu p (by simp))
      · intro y hy; exact Or.inl (hA p (by simp) y hy))
  rw [e]
  rw [← (getOpIDs_perm f hm hs st'.doc).nodup_iff, hinv.2.1]
  exact hinv.2.2.nodup

end Proofs.Mixin
