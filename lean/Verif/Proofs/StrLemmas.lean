import Verif.Model.Str
import Verif.Spec.Pointer
import Verif.Spec.Index
import Verif.Proofs.StrLemmasAux

/-!
  String lemmas behind C11/C12: how `path.Join`, `jsonpointer.Escape/Unescape` and pointer parsing
  interact, for *all* strings (no alphabet sampling).
-/

namespace Str

/-- a path segment that `path.Clean` keeps as it is -/
def GoodSeg (s : String) : Prop := s ≠ "" ∧ s ≠ "." ∧ s ≠ ".." ∧ '/' ∉ s.toList

/-- a token whose escaped form is a good segment: exactly the tokens other than "", ".", ".." -/
def GoodTok (t : String) : Prop := t ≠ "" ∧ t ≠ "." ∧ t ≠ ".."


/-! ### transport between `String` and `List Char` -/

theorem toList_slash : ("/" : String).toList = ['/'] := by decide
theorem toList_dot : (".": String).toList = ['.'] := by decide
theorem toList_dotdot : ("..": String).toList = ['.', '.'] := by decide

theorem toList_esc (s : String) : (esc s).toList = escL s.toList := by
  simp [esc, String.toList_ofList]

theorem ne_iff_toList_ne (s t : String) : s ≠ t ↔ s.toList ≠ t.toList := by
  rw [Ne, Ne, String.toList_inj]

theorem goodSeg_iff (s : String) : GoodSeg s ↔ GoodSegL s.toList := by
  unfold GoodSeg GoodSegL
  rw [ne_iff_toList_ne s "", ne_iff_toList_ne s ".", ne_iff_toList_ne s "..",
    String.toList_empty, toList_dot, toList_dotdot]

theorem goodTok_iff (t : String) :
    GoodTok t ↔ t.toList ≠ [] ∧ t.toList ≠ ['.'] ∧ t.toList ≠ ['.', '.'] := by
  unfold GoodTok
  rw [ne_iff_toList_ne t "", ne_iff_toList_ne t ".", ne_iff_toList_ne t "..",
    String.toList_empty, toList_dot, toList_dotdot]

theorem toList_join_slash (xs : List String) :
    (String.join (xs.map fun s => "/" ++ s)).toList = rootedL (xs.map String.toList) := by
  rw [String.toList_join]
  induction xs with
  | nil => rfl
  | cons x xs ih =>
    simp only [List.map_cons, List.flatMap_cons, rootedL_cons, String.toList_append, toList_slash, ih]
    simp

theorem toList_ptr (toks : List String) :
    (Spec.Index.ptr toks).toList = rootedL (toks.map fun t => escL t.toList) := by
  unfold Spec.Index.ptr
  have : (toks.map fun t => "/" ++ esc t) = ((toks.map esc).map fun s => "/" ++ s) := by
    simp [List.map_map]
  rw [this, toList_join_slash, List.map_map]
  congr 1
  apply List.map_congr_left
  intro t _
  simp [toList_esc]

/-- escaping never produces a '/' -/
theorem esc_no_slash (s : String) : '/' ∉ (esc s).toList := by
  rw [toList_esc]; exact escL_no_slash _

/-- the escaped form of a good token is a good segment -/
theorem goodSeg_esc (t : String) (h : GoodTok t) : GoodSeg (esc t) := by
  rw [goodSeg_iff, toList_esc]
  obtain ⟨h1, h2, h3⟩ := (goodTok_iff t).1 h
  exact ⟨fun e => h1 (escL_eq_nil.1 e), fun e => h2 (escL_eq_dot.1 e),
    fun e => h3 (escL_eq_dotdot.1 e), escL_no_slash _⟩

/-- `jsonpointer.Unescape (jsonpointer.Escape s) = s` for every string -/
theorem unesc_esc (s : String) : unesc (esc s) = s := by
  unfold unesc
  rw [toList_esc, unescL_escL, String.ofList_toList]


theorem not_mem_toDigits_of_not_isDigit (c : Char) (hc : c.isDigit = false) (n : Nat) :
    c ∉ Nat.toDigits 10 n := by
  intro h
  have := Nat.isDigit_of_mem_toDigits (by decide) (by decide) h
  rw [hc] at this
  exact absurd this (by decide)

theorem toList_itoa (n : Nat) : (itoa n).toList = Nat.toDigits 10 n := by
  unfold itoa
  rw [Nat.toString_eq_repr, Nat.toList_repr]

theorem goodSegL_map_toList (segs : List String) (hs : ∀ s ∈ segs, GoodSeg s) :
    ∀ x ∈ segs.map String.toList, GoodSegL x := by
  intro x hx
  obtain ⟨s, hs', rfl⟩ := List.mem_map.1 hx
  exact (goodSeg_iff s).1 (hs s hs')

theorem join_rooted (toks : List (List Char)) (segs : List String) (p : String)
    (hp : p.toList = rootedL toks) (hne : toks ≠ [])
    (ht : ∀ s ∈ toks, GoodSegL s) (hs : ∀ s ∈ segs, GoodSeg s) :
    join (p :: segs) = p ++ String.join (segs.map fun s => "/" ++ s) := by
  apply String.toList_injective
  unfold join
  rw [String.toList_ofList, String.toList_append, toList_join_slash, List.map_cons, hp]
  exact joinL_rootedL toks _ hne ht (goodSegL_map_toList segs hs)

/-- decimal numerals are good segments and are not changed by escaping -/
theorem goodSeg_itoa (n : Nat) : GoodSeg (itoa n) ∧ esc (itoa n) = itoa n := by
  have hdot : '.' ∉ Nat.toDigits 10 n := not_mem_toDigits_of_not_isDigit _ (by decide) n
  have hsl : '/' ∉ Nat.toDigits 10 n := not_mem_toDigits_of_not_isDigit _ (by decide) n
  have hti : '~' ∉ Nat.toDigits 10 n := not_mem_toDigits_of_not_isDigit _ (by decide) n
  refine ⟨?_, ?_⟩
  · rw [goodSeg_iff, toList_itoa]
    refine ⟨Nat.toDigits_ne_nil, ?_, ?_, hsl⟩
    · intro e; rw [e] at hdot; simp at hdot
    · intro e; rw [e] at hdot; simp at hdot
  · apply String.toList_injective
    rw [toList_esc, toList_itoa]
    exact escL_id _ hti hsl

/-- `path.Join(p, s₁, …, sₙ)` of a rendered pointer of good tokens and good segments is plain
    concatenation with '/' -/
theorem join_ptr (toks : List String) (segs : List String)
    (ht : ∀ t ∈ toks, GoodTok t) (hne : toks ≠ []) (hs : ∀ s ∈ segs, GoodSeg s) :
    join (Spec.Index.ptr toks :: segs) = Spec.Index.ptr toks ++ String.join (segs.map fun s => "/" ++ s) := by
  refine join_rooted (toks.map fun t => escL t.toList) segs _ (toList_ptr toks) (by simpa using hne) ?_ hs
  intro x hx
  obtain ⟨t, ht', rfl⟩ := List.mem_map.1 hx
  have := goodSeg_esc t (ht t ht')
  rwa [goodSeg_iff, toList_esc] at this

/-- the same with a literal first element such as "/definitions" or "/paths" -/
theorem join_lit (lit : String) (segs : List String) (hl : GoodSeg lit) (hs : ∀ s ∈ segs, GoodSeg s) :
    join (("/" ++ lit) :: segs) = "/" ++ lit ++ String.join (segs.map fun s => "/" ++ s) := by
  refine join_rooted [lit.toList] segs _ ?_ (by simp) ?_ hs
  · simp [String.toList_append, toList_slash]
  · intro x hx
    rw [List.mem_singleton] at hx
    subst hx
    exact (goodSeg_iff lit).1 hl

/-- rendering a further token = joining its escaped form -/
theorem ptr_snoc (toks : List String) (t : String) :
    Spec.Index.ptr (toks ++ [t]) = Spec.Index.ptr toks ++ "/" ++ esc t := by
  apply String.toList_injective
  rw [toList_ptr, String.toList_append, String.toList_append, toList_ptr, toList_esc, toList_slash,
    List.map_append, rootedL_append]
  simp

/-- parsing a rendered pointer gives the tokens back, for every token list -/
theorem parse_ptr (toks : List String) : Spec.Pointer.parse (Spec.Index.ptr toks) = toks := by
  unfold Spec.Pointer.parse
  rw [toList_ptr, splitSlashL_rootedL]
  · simp only [List.map_map]
    conv => rhs; rw [← List.map_id toks]
    apply List.map_congr_left
    intro t _
    simp [unescL_escL, String.ofList_toList]
  · intro x hx
    obtain ⟨t, _, rfl⟩ := List.mem_map.1 hx
    exact escL_no_slash _

end Str
