import Verif.Proofs.IndexViews

/-!
  The four index views (`refsWhere`, `patternsWhere`, `enumsWhere`, `schemas`) of the
  category-sorted log.
-/

namespace IndexProof
open J Analyzer Spec.Index Str ListPerm

/-! ### refs -/

theorem refs_refEnt (p : String → Bool) (kind : String) (q : Pos) :
    Index.refsWhere p (refEnt kind (ptr q.1) q.2) = if p kind = true then refOne q else [] := by
  unfold Index.refsWhere refEnt refOne key
  by_cases h : Doc.refStr q.2 = "" <;> by_cases hp : p kind = true <;> simp [h, hp]

theorem mem_patEnum {cat k : String} {n : J} {e : Ent} (h : e ∈ patEnum cat k n) :
    (∃ v, e = .pattern cat k v) ∨ (∃ v, e = .enum cat k v) := by
  unfold patEnum at h
  rcases List.mem_append.1 h with h | h
  · split at h
    · exact Or.inl ⟨_, List.mem_singleton.1 h⟩
    · simp at h
  · split at h
    · exact Or.inr ⟨_, List.mem_singleton.1 h⟩
    · simp at h

theorem refs_patEnum (p : String → Bool) (cat k : String) (n : J) :
    Index.refsWhere p (patEnum cat k n) = [] := by
  unfold Index.refsWhere
  refine List.filterMap_eq_nil_iff.2 fun e he => ?_
  rcases mem_patEnum he with ⟨v, rfl⟩ | ⟨v, rfl⟩ <;> rfl

theorem refs_append (p : String → Bool) (a b : List Ent) :
    Index.refsWhere p (a ++ b) = Index.refsWhere p a ++ Index.refsWhere p b := by
  unfold Index.refsWhere; exact List.filterMap_append

theorem refs_flatMap {α} (p : String → Bool) (l : List α) (F : α → List Ent) :
    Index.refsWhere p (l.flatMap F) = l.flatMap fun a => Index.refsWhere p (F a) := by
  unfold Index.refsWhere; exact List.filterMap_flatMap

theorem refs_schE (p : String → Bool) (q : Pos) :
    Index.refsWhere p (schE q) = if p "schema" = true then refOne q else [] := by
  unfold schE
  rw [show ∀ (x : Ent) (l : List Ent), x :: l = [x] ++ l from fun _ _ => rfl, refs_append, refs_append,
    refs_refEnt, refs_patEnum]
  simp [Index.refsWhere]

theorem refs_itE (p : String → Bool) (loc : String) (q : Pos) :
    Index.refsWhere p (itE loc q) = if p ("items:" ++ loc) = true then refOne q else [] := by
  unfold itE
  rw [refs_append, refs_refEnt, refs_patEnum, List.append_nil]

/-- the reference view, kind by kind -/
def refsSpec (p : String → Bool) (d : J) : List (String × J) :=
  (if p "schema" = true then refsOf (allSchemas d) else []) ++
  (if p "response" = true then refsOf (opResponses d) else []) ++
  (if p "parameter" = true then refsOf (listedParams d) else []) ++
  (if p "pathItem" = true then refsOf (pathItemPositions d) else []) ++
  (if p "items:header" = true then refsOf (headerItems d) else []) ++
  (if p "items:parameter" = true then refsOf (paramItems d) else [])

theorem refs_specLog (p : String → Bool) (d : J) : Index.refsWhere p (specLog d) = refsSpec p d := by
  unfold specLog refsSpec
  simp only [refs_append, refs_flatMap, refs_schE, refs_itE, parRefE, parPatE, respE, hdrE, piE,
    refs_refEnt, refs_patEnum, flatMap_ite_fun, flatMap_nil_fun, refsOf_eq, List.append_nil]
  rfl

/-! ### patterns -/

theorem pats_append (p : String → Bool) (a b : List Ent) :
    Index.patternsWhere p (a ++ b) = Index.patternsWhere p a ++ Index.patternsWhere p b := by
  unfold Index.patternsWhere; exact List.filterMap_append

theorem pats_refEnt (p : String → Bool) (kind k : String) (n : J) :
    Index.patternsWhere p (refEnt kind k n) = [] := by
  unfold Index.patternsWhere refEnt
  split <;> rfl

theorem patEnum_eq (cat k : String) (n : J) :
    patEnum cat k n =
      (if n.getStr "pattern" ≠ "" then [Ent.pattern cat k (n.getStr "pattern")] else []) ++
      (match n.get? "enum" with
       | some (.arr (v :: vs)) => [Ent.enum cat k (.arr (v :: vs))]
       | _ => []) := rfl

theorem ite_append_nil {α} (c : Prop) [Decidable c] (a b : List α) :
    (if c then a ++ b else []) = (if c then a else []) ++ (if c then b else []) := by
  split <;> rfl

theorem pats_patEnum (p : String → Bool) (cat : String) (q : Pos) :
    Index.patternsWhere p (patEnum cat (ptr q.1) q.2) = if p cat = true then patOne q else [] := by
  rw [patEnum_eq, pats_append]
  have h2 : Index.patternsWhere p (match q.2.get? "enum" with
       | some (.arr (v :: vs)) => [Ent.enum cat (ptr q.1) (.arr (v :: vs))]
       | _ => []) = [] := by
    split <;> rfl
  rw [h2, List.append_nil]
  unfold Index.patternsWhere patOne key
  by_cases h : q.2.getStr "pattern" = "" <;> by_cases hp : p cat = true <;> simp [h, hp]

theorem pats_flatMap {α} (p : String → Bool) (l : List α) (F : α → List Ent) :
    Index.patternsWhere p (l.flatMap F) = l.flatMap fun a => Index.patternsWhere p (F a) := by
  unfold Index.patternsWhere; exact List.filterMap_flatMap

theorem pats_schE (p : String → Bool) (q : Pos) :
    Index.patternsWhere p (schE q) = if p "schema" = true then patOne q else [] := by
  unfold schE
  rw [show ∀ (x : Ent) (l : List Ent), x :: l = [x] ++ l from fun _ _ => rfl, pats_append, pats_append,
    pats_refEnt, pats_patEnum]
  simp [Index.patternsWhere]

theorem pats_itE (p : String → Bool) (loc : String) (q : Pos) :
    Index.patternsWhere p (itE loc q) = if p "items" = true then patOne q else [] := by
  unfold itE
  rw [pats_append, pats_refEnt, pats_patEnum, List.nil_append]

/-- the pattern view, category by category -/
def patsSpec (p : String → Bool) (d : J) : List (String × J) :=
  (if p "parameter" = true then patternsOf (listedParams d ++ sharedParams d) else []) ++
  (if p "header" = true then patternsOf (headers d) else []) ++
  (if p "items" = true then patternsOf (paramItems d ++ headerItems d) else []) ++
  (if p "schema" = true then patternsOf (allSchemas d) else [])

theorem pats_specLog (p : String → Bool) (d : J) :
    (Index.patternsWhere p (specLog d)).Perm (patsSpec p d) := by
  unfold specLog patsSpec
  simp only [pats_append, pats_flatMap, pats_schE, pats_itE, parRefE, parPatE, respE, hdrE, piE,
    pats_refEnt, pats_patEnum, flatMap_ite_fun, flatMap_nil_fun, patternsOf_eq, List.append_nil,
    List.flatMap_append, ite_append_nil]
  perm_ac

/-! ### enums -/

theorem enums_append (p : String → Bool) (a b : List Ent) :
    Index.enumsWhere p (a ++ b) = Index.enumsWhere p a ++ Index.enumsWhere p b := by
  unfold Index.enumsWhere; exact List.filterMap_append

theorem enums_refEnt (p : String → Bool) (kind k : String) (n : J) :
    Index.enumsWhere p (refEnt kind k n) = [] := by
  unfold Index.enumsWhere refEnt
  split <;> rfl

theorem enums_patEnum (p : String → Bool) (cat : String) (q : Pos) :
    Index.enumsWhere p (patEnum cat (ptr q.1) q.2) = if p cat = true then enumOne q else [] := by
  rw [patEnum_eq, enums_append]
  have h1 : Index.enumsWhere p
      (if q.2.getStr "pattern" ≠ "" then [Ent.pattern cat (ptr q.1) (q.2.getStr "pattern")] else []) = [] := by
    split <;> rfl
  rw [h1, List.nil_append]
  unfold Index.enumsWhere enumOne key
  by_cases hp : p cat = true
  · rw [if_pos hp]
    split <;> simp_all
  · rw [if_neg hp]
    split <;> simp [hp]

theorem enums_flatMap {α} (p : String → Bool) (l : List α) (F : α → List Ent) :
    Index.enumsWhere p (l.flatMap F) = l.flatMap fun a => Index.enumsWhere p (F a) := by
  unfold Index.enumsWhere; exact List.filterMap_flatMap

theorem enums_schE (p : String → Bool) (q : Pos) :
    Index.enumsWhere p (schE q) = if p "schema" = true then enumOne q else [] := by
  unfold schE
  rw [show ∀ (x : Ent) (l : List Ent), x :: l = [x] ++ l from fun _ _ => rfl, enums_append, enums_append,
    enums_refEnt, enums_patEnum]
  simp [Index.enumsWhere]

theorem enums_itE (p : String → Bool) (loc : String) (q : Pos) :
    Index.enumsWhere p (itE loc q) = if p "items" = true then enumOne q else [] := by
  unfold itE
  rw [enums_append, enums_refEnt, enums_patEnum, List.nil_append]

/-- the enum view, category by category -/
def enumsSpec (p : String → Bool) (d : J) : List (String × J) :=
  (if p "parameter" = true then enumsOf (listedParams d ++ sharedParams d) else []) ++
  (if p "header" = true then enumsOf (headers d) else []) ++
  (if p "items" = true then enumsOf (paramItems d ++ headerItems d) else []) ++
  (if p "schema" = true then enumsOf (allSchemas d) else [])

theorem enums_specLog (p : String → Bool) (d : J) :
    (Index.enumsWhere p (specLog d)).Perm (enumsSpec p d) := by
  unfold specLog enumsSpec
  simp only [enums_append, enums_flatMap, enums_schE, enums_itE, parRefE, parPatE, respE, hdrE, piE,
    enums_refEnt, enums_patEnum, flatMap_ite_fun, flatMap_nil_fun, enumsOf_eq, List.append_nil,
    List.flatMap_append, ite_append_nil]
  perm_ac

/-! ### schemas -/

theorem schemas_nil_of (l : List Ent) (h : ∀ e ∈ l, ∀ k n t j, e ≠ .schema k n t j) :
    Index.schemas l = [] := by
  unfold Index.schemas
  refine List.filterMap_eq_nil_iff.2 fun e he => ?_
  cases e with
  | schema k n t j => exact absurd rfl (h _ he k n t j)
  | _ => rfl

theorem schemas_refEnt (kind k : String) (n : J) : Index.schemas (refEnt kind k n) = [] := by
  unfold Index.schemas refEnt
  split <;> rfl

theorem schemas_patEnum (cat k : String) (n : J) : Index.schemas (patEnum cat k n) = [] := by
  refine schemas_nil_of _ fun e he => ?_
  rcases mem_patEnum he with ⟨v, rfl⟩ | ⟨v, rfl⟩ <;> intros <;> simp

theorem schemas_append (a b : List Ent) :
    Index.schemas (a ++ b) = Index.schemas a ++ Index.schemas b := by
  unfold Index.schemas; exact List.filterMap_append

theorem schemas_flatMap {α} (l : List α) (F : α → List Ent) :
    Index.schemas (l.flatMap F) = l.flatMap fun a => Index.schemas (F a) := by
  unfold Index.schemas; exact List.filterMap_flatMap

theorem schemas_schE (q : Pos) : Index.schemas (schE q) = [schemaEntry q] := by
  unfold schE
  rw [show ∀ (x : Ent) (l : List Ent), x :: l = [x] ++ l from fun _ _ => rfl, schemas_append,
    schemas_append, schemas_refEnt, schemas_patEnum]
  rfl

theorem schemas_itE (loc : String) (q : Pos) : Index.schemas (itE loc q) = [] := by
  unfold itE
  rw [schemas_append, schemas_refEnt, schemas_patEnum]; rfl

theorem flatMap_singleton_fun {α β} (l : List α) (f : α → β) : (l.flatMap fun a => [f a]) = l.map f := by
  induction l with
  | nil => rfl
  | cons a l ih => simp [ih]

theorem schemas_specLog (d : J) : Index.schemas (specLog d) = (allSchemas d).map schemaEntry := by
  unfold specLog
  simp only [schemas_append, schemas_flatMap, schemas_schE, schemas_itE, parRefE, parPatE, respE, hdrE,
    piE, schemas_refEnt, schemas_patEnum, flatMap_nil_fun, List.append_nil, flatMap_singleton_fun]

end IndexProof
