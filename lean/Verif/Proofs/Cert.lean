import Verif.Model.Cert
import Verif.Proofs.JsonLemmas

/-!
Helper lemmas for C01: soundness of the certificate checker `Cert.checkCert`.
-/

namespace Proofs.Cert
open J Spec.Meaning _root_.Cert

theorem posEq_iff (a b : Pos) : posEq a b = true ↔ a = b := by
  rcases a with ⟨a1, a2⟩
  rcases b with ⟨b1, b2⟩
  simp [posEq]

theorem has_iff (R : Rel) (p q : Pos) : R.has p q = true ↔ (p, q) ∈ R := by
  unfold Rel.has
  simp only [List.any_eq_true, Bool.and_eq_true, posEq_iff]
  constructor
  · rintro ⟨⟨a, b⟩, hm, rfl, rfl⟩
    exact hm
  · intro h
    exact ⟨(p, q), h, rfl, rfl⟩

/-- two keyed maps agree when the key lists agree and the values agree on every key -/
theorem map_eq_of_keys {α β γ : Type} (key1 : α → String) (key2 : β → String) (F G : String → γ)
    (l1 : List α) (l2 : List β) (hk : l1.map key1 = l2.map key2)
    (h : ∀ k ∈ l1.map key1, F k = G k) :
    l1.map (fun x => (key1 x, F (key1 x))) = l2.map (fun y => (key2 y, G (key2 y))) := by
  have e1 : l1.map (fun x => (key1 x, F (key1 x))) = (l1.map key1).map (fun k => (k, F k)) := by
    simp [List.map_map, Function.comp_def]
  have e2 : l2.map (fun y => (key2 y, G (key2 y))) = (l2.map key2).map (fun k => (k, G k)) := by
    simp [List.map_map, Function.comp_def]
  rw [e1, e2, ← hk]
  apply List.map_congr_left
  intro k hk'
  rw [h k hk']

/-- a scalar node unfolds to a leaf -/
theorem unfold_scalar (b : Bundle) (hops n : Nat) (p p' : Pos) (v : J)
    (hc : chase b hops p = some p') (hn : b.node p' = some v) (hs : isScalar v = true) :
    unfold b hops (n + 1) p = .leaf v := by
  simp only [unfold, hc, hn]
  cases v <;> simp_all [isScalar]

theorem unfold_obj (b : Bundle) (hops n : Nat) (p p' : Pos) (kvs : List (String × J))
    (hc : chase b hops p = some p') (hn : b.node p' = some (.obj kvs)) :
    unfold b hops (n + 1) p
      = .obj ((visible kvs).map fun kv => (kv.1, unfold b hops n (child p' kv.1))) := by
  simp only [unfold, hc, hn]

theorem unfold_arr (b : Bundle) (hops n : Nat) (p p' : Pos) (xs : List J)
    (hc : chase b hops p = some p') (hn : b.node p' = some (.arr xs)) :
    unfold b hops (n + 1) p
      = .arr ((List.range xs.length).map fun i => unfold b hops n (child p' (toString i))) := by
  simp only [unfold, hc, hn]

/-- one step of the bisimulation argument -/
theorem unfold_step (b1 b2 : Bundle) (hops n : Nat) (R : Rel) (p q : Pos)
    (ih : ∀ p q, R.has p q = true → unfold b1 hops n p = unfold b2 hops n q)
    (h : pairOK b1 b2 hops R p q = true) :
    unfold b1 hops (n + 1) p = unfold b2 hops (n + 1) q := by
  unfold pairOK at h
  cases h1 : chase b1 hops p with
  | none =>
    cases h2 : chase b2 hops q with
    | none => simp only [unfold, h1, h2]
    | some q' => simp [h1, h2] at h
  | some p' =>
    cases h2 : chase b2 hops q with
    | none => simp [h1, h2] at h
    | some q' =>
      simp only [h1, h2] at h
      cases hk : kidsOf b1 b2 p' q' with
      | none => simp [hk] at h
      | some kids =>
        simp only [hk, List.all_eq_true] at h
        unfold kidsOf at hk
        split at hk
        · -- two objects
          rename_i k1 k2 hn1 hn2
          simp only at hk
          split at hk
          · rename_i hv
            simp only [Option.some.injEq] at hk
            subst hk
            rw [unfold_obj b1 hops n p p' k1 h1 hn1, unfold_obj b2 hops n q q' k2 h2 hn2]
            congr 1
            apply map_eq_of_keys (fun kv : String × J => kv.1) (fun kv : String × J => kv.1)
              (fun k => unfold b1 hops n (child p' k)) (fun k => unfold b2 hops n (child q' k))
              _ _ hv
            intro k hkm
            apply ih
            exact h (child p' k, child q' k) (List.mem_map.mpr ⟨k, hkm, rfl⟩)
          · simp at hk
        · -- two arrays
          rename_i x1 x2 hn1 hn2
          split at hk
          · rename_i hl
            simp only [Option.some.injEq] at hk
            subst hk
            rw [unfold_arr b1 hops n p p' x1 h1 hn1, unfold_arr b2 hops n q q' x2 h2 hn2, ← hl]
            congr 1
            apply List.map_congr_left
            intro i hi
            apply ih
            exact h (child p' (toString i), child q' (toString i)) (List.mem_map.mpr ⟨i, hi, rfl⟩)
          · simp at hk
        · -- scalars
          rename_i a c _ _ hn1 hn2
          split at hk
          · rename_i hs
            simp only [Bool.and_eq_true, beq_iff] at hs
            obtain ⟨⟨hs1, hs2⟩, hac⟩ := hs
            rw [unfold_scalar b1 hops n p p' a h1 hn1 hs1, unfold_scalar b2 hops n q q' c h2 hn2 hs2,
              hac]
          · simp at hk
        · simp at hk

theorem cert_sound_depth (b1 b2 : Bundle) (hops : Nat) (R : Rel)
    (h : checkCert b1 b2 hops R = true) :
    ∀ n p q, R.has p q = true → unfold b1 hops n p = unfold b2 hops n q := by
  intro n
  induction n with
  | zero => intro p q _; simp only [unfold]
  | succ n ih =>
    intro p q hpq
    apply unfold_step b1 b2 hops n R p q ih
    unfold checkCert at h
    rw [List.all_eq_true] at h
    exact h (p, q) ((has_iff R p q).mp hpq)

end Proofs.Cert
