import Verif.Proofs.RetargetFold
import Verif.Proofs.DeepestReaches
import Verif.Proofs.MoveModel

/-!
  The dependents loop of `InlineSchemaNamer.Name` (model: the fold inside `Flatten.nameWith`) is a run of re-targetings
  in the sense of `Proofs.RetargetFold.RetargetRun`: every `$ref` it rewrites leads, through `DeepestRef`, to the new
  definition, which is what the new `$ref` string designates.
-/

namespace Proofs.NameRun
open J Replace Flatten Spec.Meaning Proofs.Retarget Proofs.RetargetModel Proofs.RetargetFold Proofs.DeepestReaches
open Proofs.Move Proofs.MoveBase Proofs.UpdateComm

/-- the dependents loop of `Name` -/
def depLoop (x : Ext) (key target ref : String) (fuel : Nat) (refs : List (String × String)) (d : J) : Outcome J :=
  refs.foldlM (fun d kv => do
    let r ← deepestRef x d fuel kv.2
    if r.1 ≠ key ∧ (r.1 ≠ target ∨ Str.dir kv.2 = "#/definitions") then pure d
    else Replace.updateRef d kv.1 ref) d

/-- where `DeepestRef` stops: on a `$ref` to a top-level definition, or on a position that holds no `$ref` -/
theorem deepestRefLoop_stops (x : Ext) (d : J) : ∀ (fuel : Nat) (visited : List String) (cur r : String) (sch : Option J),
    deepestRefLoop x d fuel visited cur = .ok (r, sch) →
    Str.dir r = "#/definitions" ∨
      ∃ toks node, x.refTokens r = some toks ∧ Spec.Pointer.get d toks = some node ∧ Doc.refStr node = "" := by
  intro fuel
  induction fuel with
  | zero => intro visited cur r sch h; simp [deepestRefLoop] at h
  | succ fuel ih =>
    intro visited cur r sch h
    simp only [deepestRefLoop] at h
    split at h
    · rename_i hdir; cases h; exact Or.inl hdir
    · split at h
      · cases h
      · split at h
        · cases h
        · rename_i toks htoks
          split at h
          · cases h
          · rename_i node kind hw
            split at h
            · rename_i hnext
              split at h
              · cases h; exact Or.inr ⟨toks, _, htoks, ReplaceKeys.get_of_walk hw, hnext⟩
              · cases h
            · exact ih _ _ _ _ h

/-- what the loop needs to find at an entry of the reference map: the `$ref` listed, a fragment-only one that the table
    knows, at a canonically spelled key -/
def EntryOK (d : J) (T : List (String × Pos)) (kv : String × String) : Prop :=
  ∃ a qc, Spec.Pointer.get d (keyTokens kv.1) = some a ∧ Doc.refStr a = kv.2 ∧ kv.2 ≠ "" ∧
    hasFragmentOnly kv.2 = true ∧ T.lookup kv.2 = some qc ∧ AllCanon (keyTokens kv.1)

/-- the keys of two entries are apart, and apart from the place that has been named -/
def ApartKV (a b : String × String) : Prop := Apart ⟨keyTokens a.1, ""⟩ ⟨keyTokens b.1, ""⟩

/-- the place that has been named holds a `$ref` (to the new definition) -/
def KeyIsRef (x : Ext) (d : J) (key : String) (ktoks : List String) : Prop :=
  x.refTokens key = some ktoks ∧ ∃ kn, Spec.Pointer.get d ktoks = some kn ∧ Doc.refStr kn ≠ ""

theorem depLoop_run (x : Ext) (key target ref : String) (fuel : Nat) (T : List (String × Pos)) (rest : Bundle)
    (hT : TableOK x T) (q' : Pos) (hq' : T.lookup ref = some q') (hqt : T.lookup target = some q') (hrne : ref ≠ "")
    (ktoks : List String) (hkdir : Str.dir key ≠ "#/definitions") (hkcanon : AllCanon ktoks)
    (hops : Nat) (hpos : 0 < hops)
    (hTgood : ∀ d doc s q, (bundleWith d T rest).target doc s = some q → GoodAll q ∧ "$ref" ∉ q.2) :
    ∀ (refs : List (String × String)) (d dn : J),
      depLoop x key target ref fuel refs d = .ok dn →
      (∀ kv ∈ refs, EntryOK d T kv) → refs.Pairwise ApartKV →
      -- the named place is not rewritten by the loop, nor does an entry lie inside its `$ref` member or it inside theirs
      (∀ kv ∈ refs, (keyTokens kv.1 = ktoks ∧ Str.dir kv.2 = "#/definitions") ∨ Apart ⟨keyTokens kv.1, ""⟩ ⟨ktoks, ""⟩) →
      KeyIsRef x d key ktoks → keysCanon d = true →
      RSetting.AdequateOn GoodAll (bundleWith d T rest) hops →
      ∃ steps, RetargetRun T rest d steps dn ∧ ∀ s ∈ steps, ∃ kv ∈ refs, s.toks = keyTokens kv.1 := by
  intro refs
  induction refs with
  | nil =>
    intro d dn h _ _ _ _ _ _
    simp [depLoop, List.foldlM] at h
    exact ⟨[], by rw [← h]; exact RetargetRun.nil d, by simp⟩
  | cons kv rest' ih =>
    intro d dn h hent hpw hkk hkref hk had
    simp only [depLoop, List.foldlM_cons] at h
    obtain ⟨d1, h1, h2⟩ := OutcomeM.bind_eq_ok.1 h
    obtain ⟨r, hr, h1'⟩ := OutcomeM.bind_eq_ok.1 h1
    obtain ⟨a, qc, hget, hra, hne, hfrag, hqc, hcanon⟩ := hent kv List.mem_cons_self
    by_cases hcond : r.1 ≠ key ∧ (r.1 ≠ target ∨ Str.dir kv.2 = "#/definitions")
    · -- nothing is rewritten at this entry
      rw [if_pos hcond] at h1'
      simp only [OutcomeM.pure_eq_ok] at h1'
      subst h1'
      obtain ⟨steps, hrun, hs⟩ := ih d dn h2 (fun kv' hkv' => hent kv' (List.mem_cons_of_mem _ hkv'))
        (List.pairwise_cons.1 hpw).2 (fun kv' hkv' => hkk kv' (List.mem_cons_of_mem _ hkv')) hkref hk had
      exact ⟨steps, hrun, fun s hs' => by
        obtain ⟨kv', hkv', he⟩ := hs s hs'
        exact ⟨kv', List.mem_cons_of_mem _ hkv', he⟩⟩
    · rw [if_neg hcond] at h1'
      -- `DeepestRef` cannot have stopped on the named place: that place holds a `$ref`
      have hnk : r.1 ≠ key := by
        intro hk1
        have hdeep := hr
        unfold deepestRef at hdeep
        simp only [hfrag, Bool.not_true, Bool.false_eq_true, if_false] at hdeep
        rcases deepestRefLoop_stops x d fuel [] kv.2 r.1 r.2 hdeep with hd | ⟨toks, node, ht, hg, hrn⟩
        · exact hkdir (hk1 ▸ hd)
        · obtain ⟨hkt, kn, hkg, hkr⟩ := hkref
          rw [hk1, hkt] at ht; cases ht
          rw [hkg] at hg; cases hg
          exact hkr hrn
      have hr1 : r.1 = target := by
        rcases not_and_or.1 hcond with h' | h'
        · exact absurd hnk h'
        · exact Classical.not_not.1 (not_or.1 h').1
      -- this entry is rewritten: a re-targeting along the chain `DeepestRef` has followed
      have hreach := (deepestRef_reaches x d T rest hT fuel kv.2 r.1 r.2 hfrag hr qc q' hqc (hr1 ▸ hqt)).1
      have hu : updR ref .swagger d (keyTokens kv.1) = some d1 := (updateRef_ok_iff d kv.1 ref d1).1 h1'
      have hv1 : Doc.refStr a ≠ "" := hra ▸ hne
      obtain ⟨_, hk1, had1, hframe⟩ := step_invariants T rest hops hpos d d1 ⟨keyTokens kv.1, ref⟩ hu a qc q' hget hv1 hrne
        (hra ▸ hqc) hq' hreach hcanon (hTgood d) hk had
      -- the remaining entries, and the named place, are found as before in the rewritten document
      have hent1 : ∀ kv' ∈ rest', EntryOK d1 T kv' := by
        intro kv' hkv'
        obtain ⟨a2, q2, hget2, hra2, hne2, hfrag2, hq2, hcanon2⟩ := hent kv' (List.mem_cons_of_mem _ hkv')
        have hap : ApartKV kv kv' := (List.pairwise_cons.1 hpw).1 kv' hkv'
        have hg2 : Good (keyTokens kv.1) ("", keyTokens kv'.1) := Or.inr ⟨hcanon2, hap.2.1⟩
        have hne' : (("", keyTokens kv'.1) : Pos) ≠ ("", keyTokens kv.1) := fun he => hap.1 (congrArg Prod.snd he).symm
        rcases hframe _ hg2 hne' with ⟨hn, _⟩ | ⟨a', c', hn, hn', hrr, _⟩
        · rw [node_root, hget2] at hn; cases hn
        · rw [node_root] at hn hn'
          rw [hget2] at hn; cases hn
          exact ⟨c', q2, hn', by rw [hrr]; exact hra2, hne2, hfrag2, hq2, hcanon2⟩
      have hkref1 : KeyIsRef x d1 key ktoks := by
        obtain ⟨hkt, kn, hkg, hkr⟩ := hkref
        rcases hkk kv List.mem_cons_self with ⟨_, hdir⟩ | hap
        · -- the entry *is* the named place: its `$ref` designates a top-level definition, it is not rewritten
          exact absurd ⟨hnk, Or.inr hdir⟩ hcond
        · have hg2 : Good (keyTokens kv.1) ("", ktoks) := Or.inr ⟨hkcanon, hap.2.1⟩
          have hne' : (("", ktoks) : Pos) ≠ ("", keyTokens kv.1) := fun he => hap.1 (congrArg Prod.snd he).symm
          rcases hframe _ hg2 hne' with ⟨hn, _⟩ | ⟨a', c', hn, hn', hrr, _⟩
          · rw [node_root, hkg] at hn; cases hn
          · rw [node_root] at hn hn'
            rw [hkg] at hn; cases hn
            exact ⟨hkt, c', hn', by rw [hrr]; exact hkr⟩
      obtain ⟨steps, hrun, hs⟩ := ih d1 dn h2 hent1 (List.pairwise_cons.1 hpw).2
        (fun kv' hkv' => hkk kv' (List.mem_cons_of_mem _ hkv')) hkref1 hk1 had1
      refine ⟨⟨keyTokens kv.1, ref⟩ :: steps, RetargetRun.cons hu ⟨a, qc, q', hget, hv1, hrne, hra ▸ hqc, hq', hreach, hcanon⟩ hrun, ?_⟩
      intro s hs'
      rcases List.mem_cons.1 hs' with rfl | hs'
      · exact ⟨kv, List.mem_cons_self, rfl⟩
      · obtain ⟨kv', hkv', he⟩ := hs s hs'
        exact ⟨kv', List.mem_cons_of_mem _ hkv', he⟩

/-- the loop preserves the meaning of every position that is good for all the keys of the reference map -/
theorem depLoop_preserves (x : Ext) (key target ref : String) (fuel : Nat) (T : List (String × Pos)) (rest : Bundle)
    (hT : TableOK x T) (q' : Pos) (hq' : T.lookup ref = some q') (hqt : T.lookup target = some q') (hrne : ref ≠ "")
    (ktoks : List String) (hkdir : Str.dir key ≠ "#/definitions") (hkcanon : AllCanon ktoks)
    (hops : Nat) (hpos : 0 < hops)
    (hTgood : ∀ d doc s q, (bundleWith d T rest).target doc s = some q → GoodAll q ∧ "$ref" ∉ q.2)
    (refs : List (String × String)) (d dn : J)
    (h : depLoop x key target ref fuel refs d = .ok dn)
    (hent : ∀ kv ∈ refs, EntryOK d T kv) (hpw : refs.Pairwise ApartKV)
    (hkk : ∀ kv ∈ refs, (keyTokens kv.1 = ktoks ∧ Str.dir kv.2 = "#/definitions") ∨ Apart ⟨keyTokens kv.1, ""⟩ ⟨ktoks, ""⟩)
    (hkref : KeyIsRef x d key ktoks) (hk : keysCanon d = true)
    (had : RSetting.AdequateOn GoodAll (bundleWith d T rest) hops) :
    ∀ n p, (∀ kv ∈ refs, Good (keyTokens kv.1) p) → GoodAll p →
      unfold (bundleWith d T rest) hops n p = unfold (bundleWith dn T rest) hops n p := by
  intro n p hg hga
  obtain ⟨steps, hrun, hs⟩ := depLoop_run x key target ref fuel T rest hT q' hq' hqt hrne ktoks hkdir hkcanon hops hpos hTgood
    refs d dn h hent hpw hkk hkref hk had
  refine retargetRun_preserves T rest hops hpos hrun (hTgood d) hk had n p ?_ hga
  intro s hs'
  obtain ⟨kv, hkv, he⟩ := hs s hs'
  rw [he]; exact hg kv hkv

/-- `Flatten.nameWith` on the schema of a move setting: the document it returns is what the dependents loop makes of
    the document `S.d2` of the move -/
theorem nameWith_decompose (S : Move.Setting) (fc : Facts) (x : Ext) (o : Opts) (st st' : St) (key : String)
    (parts : List String) (name : String)
    (h : nameWith fc x o st key (.obj S.sch) parts name = .ok st')
    (hdoc : st.doc = .obj S.kvs) (hkey : Replace.keyTokens key = S.toks)
    (hloc : S.loc = .str (genLocation parts))
    (hname : ∀ nr, getNR key st'.ctx.newRefs = some nr → nr.newName = S.n ∧ nr.path = Str.join ["#/definitions", S.n])
    (href : x.mkRef (Str.join ["#/definitions", S.n]) = some S.r) :
    depLoop x key (Str.join ["#/definitions", S.n]) S.r (64 + (allRefs (Analyzer.analyze fc S.d2)).length)
      (allRefs (Analyzer.analyze fc S.d2)) S.d2 = .ok st'.doc := by
  unfold nameWith at h
  obtain ⟨mangled, _, h⟩ := OutcomeM.bind_eq_ok.1 h
  obtain ⟨⟨newName, isOAIGen⟩, _, h⟩ := OutcomeM.bind_eq_ok.1 h
  obtain ⟨ref, hrefq, h⟩ := OutcomeM.bind_eq_ok.1 h
  obtain ⟨d0, h1, h⟩ := OutcomeM.bind_eq_ok.1 h
  obtain ⟨d3, h2, h⟩ := OutcomeM.bind_eq_ok.1 h
  simp only [OutcomeM.pure_eq_ok] at h
  subst h
  have hnn : newName = S.n := (hname _ (by
    show getNR key (setNR key _ st.ctx.newRefs) = some _
    exact Proofs.MoveModel.getNR_setNR_self _ _ _)).1
  subst hnn
  have hr : ref = S.r := by
    unfold ask at hrefq
    rw [href] at hrefq
    cases hrefq; rfl
  subst hr
  have hd0 : d0 = S.d1 := by
    have := Proofs.MoveModel.rewrite_is_setAt _ _ _ _ h1
    rw [hdoc, hkey, S.hset] at this
    cases this; rfl
  subst hd0
  have hsaved : (J.obj S.sch).set "x-go-gen-location" (.str (genLocation parts)) = S.saved := by
    unfold Move.Setting.saved; rw [hloc]; rfl
  rw [hsaved] at h2
  exact h2

end Proofs.NameRun
