import Verif.Model.Flatten
import Verif.Proofs.FlattenBase
import Verif.Proofs.SortRef

/-!
  `namesFromKey` does not depend on the order of the operations map (C07): `namesForParam` ranges over
  `operations` (a Go map keyed by the operation's `$ref`) and appends one candidate name per hit; the
  names are sorted (`sort.Strings`) before they are used.
-/

namespace Proofs.NamesPerm
open Flatten

theorem strLe_trans (a b c : String) (h1 : strLe a b = true) (h2 : strLe b c = true) : strLe a c = true := by
  simp only [strLe, decide_eq_true_eq] at *
  exact String.le_trans h1 h2

theorem strLe_total (a b : String) : (strLe a b || strLe b a) = true := by
  simp only [strLe, Bool.or_eq_true, decide_eq_true_eq]
  exact String.le_total a b

theorem strLe_antisymm (a b : String) (h1 : strLe a b = true) (h2 : strLe b a = true) : a = b := by
  simp only [strLe, decide_eq_true_eq] at *
  exact String.le_antisymm h1 h2

theorem sortStrings_perm {l l' : List String} (hp : l.Perm l') : l.mergeSort strLe = l'.mergeSort strLe :=
  Proofs.SortRef.mergeSort_eq_of_perm strLe strLe_trans strLe_total strLe_antisymm hp

/-- a Go map lookup does not depend on the iteration order: association lists with distinct keys -/
theorem lookup_perm {β : Type} {l l' : List (String × β)} (hp : l.Perm l') (hn : (l.map (·.1)).Nodup) (k : String) :
    l.lookup k = l'.lookup k := by
  induction hp with
  | nil => rfl
  | cons a _ ih =>
    obtain ⟨ka, va⟩ := a
    simp only [List.map_cons, List.nodup_cons] at hn
    simp only [List.lookup_cons]
    cases k == ka
    · exact ih hn.2
    · rfl
  | swap a b l =>
    obtain ⟨ka, va⟩ := a
    obtain ⟨kb, vb⟩ := b
    simp only [List.map_cons, List.nodup_cons, List.mem_cons, not_or] at hn
    simp only [List.lookup_cons]
    cases h1 : k == kb <;> cases h2 : k == ka <;> try rfl
    exfalso
    have e1 : k = kb := by simpa using h1
    have e2 : k = ka := by simpa using h2
    exact hn.1.1 (e1.symm.trans e2)
  | trans p1 _ ih1 ih2 =>
    exact (ih1 hn).trans (ih2 ((p1.map _).nodup_iff.1 hn))

theorem ok_bind {α β : Type} (a : α) (f : α → Outcome β) : (Outcome.ok a >>= f) = f a := rfl

theorem isEmpty_perm {α : Type} {l l' : List α} (hp : l.Perm l') : l.isEmpty = l'.isEmpty := by
  cases l with
  | nil => rw [hp.nil_eq]
  | cons a l =>
    cases l' with
    | nil => exact absurd hp.symm.nil_eq (by simp)
    | cons b l' => rfl

theorem namesForParam_perm (x : Ext) (s : List String) {ops ops' : List (String × OpRef)} (hp : ops.Perm ops')
    (hn : (ops.map (·.1)).Nodup) (r : List (List String) × Nat) (h : namesForParam x s ops = .ok r) :
    ∃ r', namesForParam x s ops' = .ok r' ∧ r.1.Perm r'.1 ∧ r.2 = r'.2 := by
  unfold namesForParam at h ⊢
  obtain ⟨piref, h1, h2⟩ := OutcomeM.bind_eq_ok.1 h
  rw [h1, ok_bind]
  rw [← lookup_perm hp hn]
  split at h2
  · rename_i hc
    rw [if_pos hc]
    exact ⟨r, h2, List.Perm.refl _, rfl⟩
  · rename_i hc
    rw [if_neg hc]
    split at h2
    · rename_i hc2
      rw [if_pos hc2]
      obtain ⟨pref, h3, h4⟩ := OutcomeM.bind_eq_ok.1 h2
      rw [h3, ok_bind]
      simp only [OutcomeM.pure_eq_ok] at h4
      subst h4
      exact ⟨_, rfl, (hp.filter _).map _, by simp only [isEmpty_perm (hp.filter _)]⟩
    · rename_i hc2
      rw [if_neg hc2]
      exact ⟨r, h2, List.Perm.refl _, rfl⟩

theorem namesForOperation_perm (x : Ext) (s : List String) {ops ops' : List (String × OpRef)} (hp : ops.Perm ops')
    (hn : (ops.map (·.1)).Nodup) (r : List (List String) × Nat) (h : namesForOperation x s ops = .ok r) :
    ∃ r', namesForOperation x s ops' = .ok r' ∧ r.1.Perm r'.1 ∧ r.2 = r'.2 := by
  unfold namesForOperation at h ⊢
  obtain ⟨r0, h1, h2⟩ := OutcomeM.bind_eq_ok.1 h
  have h1' : ∃ r0', (if (SortRef.isOperationParam s || SortRef.isSharedOperationParam s) = true
      then namesForParam x s ops' else pure ([], 0)) = .ok r0' ∧ r0.1.Perm r0'.1 ∧ r0.2 = r0'.2 := by
    by_cases hc : (SortRef.isOperationParam s || SortRef.isSharedOperationParam s) = true
    · rw [if_pos hc] at h1 ⊢
      exact namesForParam_perm x s hp hn r0 h1
    · rw [if_neg hc] at h1 ⊢
      exact ⟨r0, h1, List.Perm.refl _, rfl⟩
  obtain ⟨r0', h3, hp0, he0⟩ := h1'
  rw [h3, ok_bind]
  have hlk : ∀ k, List.lookup k ops' = List.lookup k ops := fun k => (lookup_perm hp hn k).symm
  simp only [hlk]
  split at h2
  · rename_i hc
    rw [if_pos hc]
    obtain ⟨piref, h4, h5⟩ := OutcomeM.bind_eq_ok.1 h2
    rw [h4, ok_bind]
    split at h5
    · rename_i hc2
      rw [if_pos hc2]
      cases hl : List.lookup piref ops with
      | some op =>
        simp only [hl] at h5 ⊢
        obtain ⟨rn, h6, h7⟩ := OutcomeM.bind_eq_ok.1 h5
        simp only [OutcomeM.pure_eq_ok] at h7
        subst h7
        rw [h6, ok_bind]
        exact ⟨_, rfl, hp0.append_right _, rfl⟩
      | none =>
        simp only [hl] at h5 ⊢
        simp only [OutcomeM.pure_eq_ok] at h5
        subst h5
        exact ⟨r0', rfl, hp0, he0⟩
    · rename_i hc2
      rw [if_neg hc2]
      simp only [OutcomeM.pure_eq_ok] at h5
      subst h5
      exact ⟨r0', rfl, hp0, he0⟩
  · rename_i hc
    rw [if_neg hc]
    simp only [OutcomeM.pure_eq_ok] at h2
    subst h2
    exact ⟨r0', rfl, hp0, he0⟩

/-- the names `InlineSchemaNamer.Name` tries for a key do not depend on the iteration order of the
    operations map -/
theorem namesFromKey_perm (x : Ext) (s : List String) (fl : Classify.Flags) {ops ops' : List (String × OpRef)}
    (hp : ops.Perm ops') (hn : (ops.map (·.1)).Nodup) (names : List String)
    (h : namesFromKey x s fl ops = .ok names) : namesFromKey x s fl ops' = .ok names := by
  unfold namesFromKey at h ⊢
  obtain ⟨r, h1, h2⟩ := OutcomeM.bind_eq_ok.1 h
  have h1' : ∃ r', (if isOperation s = true then namesForOperation x s ops'
      else if SortRef.isDefinition s = true then
        pure (if (s[1]?.getD "") ≠ "" then ([[s[1]?.getD ""]], 2) else ([], 0))
      else pure ([s], 2)) = .ok r' ∧ r.1.Perm r'.1 ∧ r.2 = r'.2 := by
    by_cases hc : isOperation s = true
    · rw [if_pos hc] at h1 ⊢
      exact namesForOperation_perm x s hp hn r h1
    · rw [if_neg hc] at h1 ⊢
      exact ⟨r, h1, List.Perm.refl _, rfl⟩
  obtain ⟨r', h3, hpr, her⟩ := h1'
  rw [h3, ok_bind]
  simp only [OutcomeM.pure_eq_ok] at h2 ⊢
  subst h2
  rw [← her]
  exact (sortStrings_perm ((hpr.map _).filter _)).symm

/-! ### the visit order of `stripOAIGen` -/

def geStr (a b : String) : Bool := strLe b a

theorem stripOrder_perm {s s' : St} (hp : s.ctx.newRefs.Perm s'.ctx.newRefs) : stripOrder s = stripOrder s' := by
  unfold stripOrder
  refine Proofs.SortRef.mergeSort_eq_of_perm (fun a b => strLe b a) ?_ ?_ ?_ (hp.map _)
  · intro a b c h1 h2; exact strLe_trans c b a h2 h1
  · intro a b; rw [Bool.or_comm]; exact strLe_total a b
  · intro a b h1 h2; exact strLe_antisymm a b h2 h1

end Proofs.NamesPerm
