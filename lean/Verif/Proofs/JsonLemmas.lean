import Verif.Model.Json

namespace J

@[simp] theorem lookup_nil (k : String) : lookup k [] = none := rfl

theorem lookup_cons (k k' : String) (v : J) (rest : List (String × J)) :
    lookup k ((k', v) :: rest) = if k' = k then some v else lookup k rest := rfl

theorem lookup_setKv_self (k : String) (v : J) (kvs : List (String × J)) :
    lookup k (setKv k v kvs) = some v := by
  induction kvs with
  | nil => simp [setKv, lookup]
  | cons kv rest ih =>
    obtain ⟨k', v'⟩ := kv
    simp only [setKv]
    split
    · simp [lookup]
    · simp [lookup, *]

theorem lookup_setKv_ne (k k₂ : String) (v : J) (kvs : List (String × J)) (h : k₂ ≠ k) :
    lookup k₂ (setKv k v kvs) = lookup k₂ kvs := by
  induction kvs with
  | nil => simp [setKv, lookup, Ne.symm h]
  | cons kv rest ih =>
    obtain ⟨k', v'⟩ := kv
    simp only [setKv]
    split
    · rename_i hk; subst hk; simp [lookup, Ne.symm h]
    · simp [lookup, ih]

theorem lookup_eraseKv_self (k : String) (kvs : List (String × J)) :
    lookup k (eraseKv k kvs) = none := by
  induction kvs with
  | nil => rfl
  | cons kv rest ih =>
    obtain ⟨k', v'⟩ := kv
    simp only [eraseKv]
    split
    · exact ih
    · simp [lookup, *]

theorem lookup_eraseKv_ne (k k₂ : String) (kvs : List (String × J)) (h : k₂ ≠ k) :
    lookup k₂ (eraseKv k kvs) = lookup k₂ kvs := by
  induction kvs with
  | nil => rfl
  | cons kv rest ih =>
    obtain ⟨k', v'⟩ := kv
    simp only [eraseKv]
    split
    · rename_i hk; subst hk; simp [lookup, Ne.symm h, ih]
    · simp [lookup, ih]

theorem get?_set_self (j : J) (k : String) (v : J) (h : j.isObj = true) :
    (j.set k v).get? k = some v := by
  cases j <;> simp_all [isObj, set, get?, lookup_setKv_self]

theorem get?_set_ne (j : J) (k k₂ : String) (v : J) (h : k₂ ≠ k) :
    (j.set k v).get? k₂ = j.get? k₂ := by
  cases j <;> simp [set, get?, lookup_setKv_ne _ _ _ _ h]

end J

namespace J

theorem mapObj_comp (f h : String → J → J) (j : J) :
    mapObj f (mapObj h j) = mapObj (fun k v => f k (h k v)) j := by
  cases j <;> simp [mapObj, List.map_map, Function.comp_def]

theorem mapObj_congr (f h : String → J → J) (j : J) (e : ∀ k v, f k v = h k v) :
    mapObj f j = mapObj h j := by
  have : f = h := by funext k v; exact e k v
  rw [this]

theorem mapObj_id (j : J) : mapObj (fun _ v => v) j = j := by
  cases j <;> simp [mapObj]

theorem lookup_map (f : String → J → J) (k : String) (kvs : List (String × J)) :
    lookup k (kvs.map fun kv => (kv.1, f kv.1 kv.2)) = (lookup k kvs).map (f k) := by
  induction kvs with
  | nil => rfl
  | cons kv rest ih =>
    obtain ⟨k', v'⟩ := kv
    simp only [List.map_cons, lookup]
    split
    · rename_i hk; subst hk; simp
    · exact ih

theorem get?_mapObj (f : String → J → J) (k : String) (j : J) :
    (mapObj f j).get? k = (j.get? k).map (f k) := by
  cases j <;> simp [mapObj, get?, lookup_map]

theorem isObj_mapObj (f : String → J → J) (j : J) : (mapObj f j).isObj = j.isObj := by
  cases j <;> rfl

/-- reading an object-valued field through two nested `mapObj`s -/
theorem getObj_mapObj (F : String → J → J) (G : String → J → J) (k : String) (j : J)
    (hF : F k = mapObj G) :
    (mapObj F j).getObj k = (j.getObj k).map fun kv => (kv.1, G kv.1 kv.2) := by
  unfold getObj
  rw [get?_mapObj, hF]
  cases h : j.get? k with
  | none => simp
  | some v => cases v <;> simp [mapObj]

theorem getObj_mapObj_id (F : String → J → J) (k : String) (j : J) (hF : F k = id) :
    (mapObj F j).getObj k = j.getObj k := by
  unfold getObj
  rw [get?_mapObj, hF]
  cases h : j.get? k <;> simp

theorem getStr_mapObj_id (F : String → J → J) (k : String) (j : J) (hF : F k = id) :
    (mapObj F j).getStr k = j.getStr k := by
  unfold getStr
  rw [get?_mapObj, hF]
  cases h : j.get? k <;> simp

end J

namespace J

theorem sel_pos (p : String → Bool) (g : J → J) (k : String) (h : p k = true) : sel p g k = g := by
  funext v; simp [sel, h]

theorem sel_neg (p : String → Bool) (g : J → J) (k : String) (h : p k = false) : sel p g k = id := by
  funext v; simp [sel, h]

end J

namespace J

theorem eraseKv_setKv_self (k : String) (v : J) (kvs : List (String × J)) :
    eraseKv k (setKv k v kvs) = eraseKv k kvs := by
  induction kvs with
  | nil => simp [setKv, eraseKv]
  | cons kv rest ih =>
    obtain ⟨k', v'⟩ := kv
    simp only [setKv]
    split
    · rename_i h; subst h; simp [eraseKv]
    · rename_i h; simp [eraseKv, h, ih]

theorem erase_set_self (j : J) (k : String) (v : J) : (j.set k v).erase k = j.erase k := by
  cases j <;> simp [set, erase, eraseKv_setKv_self]

mutual
  theorem beq_eq : ∀ (a b : J), beq a b = true → a = b
    | .null, .null, _ => rfl
    | .bool a, .bool b, h => by simp [beq] at h; rw [h]
    | .num a, .num b, h => by simp [beq] at h; rw [h]
    | .str a, .str b, h => by simp [beq] at h; rw [h]
    | .arr a, .arr b, h => by simp only [beq] at h; rw [beqList_eq a b h]
    | .obj a, .obj b, h => by simp only [beq] at h; rw [beqKvs_eq a b h]
    | .null, .bool _, h | .null, .num _, h | .null, .str _, h | .null, .arr _, h | .null, .obj _, h
    | .bool _, .null, h | .bool _, .num _, h | .bool _, .str _, h | .bool _, .arr _, h | .bool _, .obj _, h
    | .num _, .null, h | .num _, .bool _, h | .num _, .str _, h | .num _, .arr _, h | .num _, .obj _, h
    | .str _, .null, h | .str _, .bool _, h | .str _, .num _, h | .str _, .arr _, h | .str _, .obj _, h
    | .arr _, .null, h | .arr _, .bool _, h | .arr _, .num _, h | .arr _, .str _, h | .arr _, .obj _, h
    | .obj _, .null, h | .obj _, .bool _, h | .obj _, .num _, h | .obj _, .str _, h | .obj _, .arr _, h => by
      simp [beq] at h
  theorem beqList_eq : ∀ (a b : List J), beqList a b = true → a = b
    | [], [], _ => rfl
    | x :: xs, y :: ys, h => by
      simp only [beqList, Bool.and_eq_true] at h
      rw [beq_eq x y h.1, beqList_eq xs ys h.2]
    | [], _ :: _, h | _ :: _, [], h => by simp [beqList] at h
  theorem beqKvs_eq : ∀ (a b : List (String × J)), beqKvs a b = true → a = b
    | [], [], _ => rfl
    | (k, x) :: xs, (l, y) :: ys, h => by
      simp only [beqKvs, Bool.and_eq_true, beq_iff_eq] at h
      rw [h.1.1, beq_eq x y h.1.2, beqKvs_eq xs ys h.2]
    | [], _ :: _, h | _ :: _, [], h => by simp [beqKvs] at h
end

mutual
  theorem beq_refl : ∀ (a : J), beq a a = true
    | .null => rfl
    | .bool a => by simp [beq]
    | .num a => by simp [beq]
    | .str a => by simp [beq]
    | .arr a => by simp only [beq]; exact beqList_refl a
    | .obj a => by simp only [beq]; exact beqKvs_refl a
  theorem beqList_refl : ∀ (a : List J), beqList a a = true
    | [] => rfl
    | x :: xs => by simp only [beqList, Bool.and_eq_true]; exact ⟨beq_refl x, beqList_refl xs⟩
  theorem beqKvs_refl : ∀ (a : List (String × J)), beqKvs a a = true
    | [] => rfl
    | (k, x) :: xs => by
      simp only [beqKvs, Bool.and_eq_true, beq_self_eq_true, true_and]; exact ⟨beq_refl x, beqKvs_refl xs⟩
end

theorem beq_iff (a b : J) : (a == b) = true ↔ a = b :=
  ⟨beq_eq a b, fun h => h ▸ beq_refl a⟩

end J
