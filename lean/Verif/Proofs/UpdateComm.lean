import Verif.Model.Replace
import Verif.Model.KeysApart
import Verif.Proofs.JsonLemmas
import Verif.Proofs.FlattenBase

/-!
  `UpdateRef` at two different positions commutes (C07).

  `replace.UpdateRef` sets the `$ref` of the schema a key designates and leaves everything else of
  that schema in place.  Two such updates at different positions of a document therefore commute:
  also when one position lies *inside* the other (a `$ref` with schema-bearing siblings that hold
  `$ref`s themselves).  Before the repair `076e7ce` the outer update replaced the whole schema and the
  inner one then failed; the statement below was not provable (and false) for the code as it was.

  "Different positions" is stated on the token paths alone, so that it holds in every document: the
  paths must differ even when decimal numerals are read as numbers (`"7"` and `"07"` designate the
  same element of an array).
-/

namespace Proofs.UpdateComm
open J Replace

/-! ### the update as a structural recursion -/

/-- `UpdateRef` from a node `j` of kind `k` along a token path: `some` of the rewritten node exactly when
    the path resolves to a schema -/
def updR (r : String) : Kind → J → List String → Option J
  | k, j, [] => if isSchemaKind k then some (j.set "$ref" (.str r)) else none
  | k, j, t :: ts =>
    match j with
    | .obj kvs =>
      (match lookup t kvs with
       | some c => (updR r (childKind k j t) c ts).map fun c' => .obj (setKv t c' kvs)
       | none => none)
    | .arr xs =>
      (match Spec.Pointer.natOfDigits t.toList with
       | some i => (match xs[i]? with
          | some c => (updR r (childKind k j t) c ts).map fun c' => .arr (xs.set i c')
          | none => none)
       | none => none)
    | _ => none

theorem step_obj (kvs : List (String × J)) (t : String) : Spec.Pointer.step (.obj kvs) t = lookup t kvs := rfl

theorem step_arr (xs : List J) (t : String) :
    Spec.Pointer.step (.arr xs) t = (Spec.Pointer.natOfDigits t.toList).bind fun i => xs[i]? := rfl

/-- the recursion computes what `walk` followed by `setAt` computes -/
theorem updR_spec (r : String) : ∀ (toks : List String) (k : Kind) (j : J),
    updR r k j toks =
      (match walk k j toks with
       | some (node, kind) => if isSchemaKind kind then setAt j toks (node.set "$ref" (.str r)) else none
       | none => none) := by
  intro toks
  induction toks with
  | nil => intro k j; simp [updR, walk, setAt]
  | cons t ts ih =>
    intro k j
    cases j with
    | obj kvs =>
      simp only [updR, walk, step_obj, setAt]
      cases hl : lookup t kvs with
      | none => simp
      | some c =>
        simp only [ih]
        cases hw : walk (childKind k (.obj kvs) t) c ts with
        | none => simp
        | some nk =>
          obtain ⟨node, kind⟩ := nk
          simp only
          split <;> simp
    | arr xs =>
      simp only [updR, walk, step_arr, setAt]
      cases hn : Spec.Pointer.natOfDigits t.toList with
      | none => simp
      | some i =>
        simp only [Option.bind_some]
        cases hx : xs[i]? with
        | none => simp
        | some c =>
          simp only [ih]
          cases hw : walk (childKind k (.arr xs) t) c ts with
          | none => simp
          | some nk =>
            obtain ⟨node, kind⟩ := nk
            simp only
            split <;> simp
    | null => simp [updR, walk, Spec.Pointer.step]
    | bool b => simp [updR, walk, Spec.Pointer.step]
    | num n => simp [updR, walk, Spec.Pointer.step]
    | str s => simp [updR, walk, Spec.Pointer.step]

/-- `updateRef` succeeds with `d'` exactly when the recursion does -/
theorem updateRef_ok_iff (d : J) (key ref : String) (d' : J) :
    updateRef d key ref = .ok d' ↔ updR ref .swagger d (keyTokens key) = some d' := by
  rw [updR_spec]
  unfold updateRef
  simp only
  cases hw : walk .swagger d (keyTokens key) with
  | none => simp
  | some nk =>
    obtain ⟨node, kind⟩ := nk
    simp only
    cases kind <;> simp [isSchemaKind] <;>
      (cases setAt d (keyTokens key) (node.set "$ref" (.str ref)) <;> simp)

/-! ### what an update leaves alone -/

/-- the shape of a member as far as `childKind` looks at it -/
def tag : Option J → Nat
  | some (.obj _) => 0
  | some (.arr _) => 1
  | _ => 2

/-- two nodes that `childKind` cannot tell apart -/
def SameTags (j j' : J) : Prop := ∀ t, t ≠ "$ref" → tag (j.get? t) = tag (j'.get? t)

/-- `childKind` below a schema, as a function of the tag of the member -/
def schemaChild (tg : Nat) (t : String) : Kind :=
  if t = "properties" ∨ t = "patternProperties" ∨ t = "definitions" then .schemaMap
  else if t = "allOf" ∨ t = "anyOf" ∨ t = "oneOf" then .schemaArr
  else if t = "not" then .notPtr
  else if t = "additionalProperties" ∨ t = "additionalItems" then (if tg = 0 then .schemaOrBool else .other)
  else if t = "items" then (if tg = 0 then .schemaOrArray else if tg = 1 then .schemaArr else .other)
  else .other

theorem childKind_schema (k : Kind) (hk : isSchemaKind k = true) (j : J) (t : String) :
    childKind k j t = schemaChild (tag (j.get? t)) t := by
  cases k <;> simp [isSchemaKind] at hk <;>
    (simp only [childKind, schemaChild]
     cases j.get? t with
     | none => simp [tag]
     | some v => cases v <;> simp [tag])

theorem childKind_nonschema (k : Kind) (hk : isSchemaKind k = false) (j j' : J) (t : String) :
    childKind k j t = childKind k j' t := by
  cases k <;> simp [isSchemaKind] at hk <;> rfl

theorem childKind_congr (k : Kind) (j j' : J) (t : String) (h : SameTags j j') :
    childKind k j t = childKind k j' t := by
  cases hk : isSchemaKind k with
  | false => exact childKind_nonschema k hk j j' t
  | true =>
    rw [childKind_schema k hk, childKind_schema k hk]
    by_cases ht : t = "$ref"
    · subst ht; simp [schemaChild]
    · rw [h t ht]

theorem childKind_schema_ref (k : Kind) (hk : isSchemaKind k = true) (j : J) :
    childKind k j "$ref" = .other := by
  rw [childKind_schema k hk]; simp [schemaChild]

/-- nothing below a position of kind `other` is a schema -/
theorem updR_other (r : String) : ∀ (ts : List String) (j : J), updR r .other j ts = none := by
  intro ts
  induction ts with
  | nil => intro j; simp [updR, isSchemaKind]
  | cons t ts ih =>
    intro j
    cases j with
    | obj kvs =>
      simp only [updR]
      cases lookup t kvs with
      | none => rfl
      | some c => simp [childKind, ih]
    | arr xs =>
      simp only [updR]
      cases hn : Spec.Pointer.natOfDigits t.toList with
      | none => simp
      | some i =>
        cases hx : xs[i]? with
        | none => simp [hx]
        | some c => simp [hx, childKind, ih]
    | null => rfl
    | bool b => rfl
    | num n => rfl
    | str s => rfl

theorem tag_set (j v : J) : tag (some (j.set "$ref" v)) = tag (some j) := by
  cases j <;> rfl

/-- an update keeps the shape of the node it starts from -/
theorem updR_tag (r : String) (ts : List String) (k : Kind) (j j' : J) (h : updR r k j ts = some j') :
    tag (some j') = tag (some j) := by
  cases ts with
  | nil =>
    simp only [updR] at h
    split at h
    · cases h; exact tag_set j _
    · cases h
  | cons t ts =>
    cases j with
    | obj kvs =>
      simp only [updR] at h
      cases hl : lookup t kvs with
      | none => simp [hl] at h
      | some c =>
        simp only [hl, Option.map_eq_some_iff] at h
        obtain ⟨c', _, rfl⟩ := h
        rfl
    | arr xs =>
      simp only [updR] at h
      cases hn : Spec.Pointer.natOfDigits t.toList with
      | none => simp [hn] at h
      | some i =>
        cases hx : xs[i]? with
        | none => simp [hn, hx] at h
        | some c =>
          simp only [hn, hx, Option.map_eq_some_iff] at h
          obtain ⟨c', _, rfl⟩ := h
          rfl
    | null => simp [updR] at h
    | bool b => simp [updR] at h
    | num n => simp [updR] at h
    | str s => simp [updR] at h

theorem sameTags_set_ref (j v : J) : SameTags j (j.set "$ref" v) := by
  intro t ht
  cases j with
  | obj kvs => simp only [J.set, J.get?]; rw [J.lookup_setKv_ne _ _ _ _ ht]
  | _ => rfl

theorem sameTags_setKv (kvs : List (String × J)) (t : String) (c c' : J) (hl : lookup t kvs = some c)
    (ht : tag (some c') = tag (some c)) : SameTags (.obj kvs) (.obj (setKv t c' kvs)) := by
  intro u _
  simp only [J.get?]
  by_cases hu : u = t
  · subst hu; rw [J.lookup_setKv_self, hl, ht]
  · rw [J.lookup_setKv_ne _ _ _ _ hu]

theorem sameTags_arr (xs ys : List J) : SameTags (.arr xs) (.arr ys) := by
  intro t _; rfl

theorem setKv_setKv (t : String) (x y : J) (m : List (String × J)) : setKv t x (setKv t y m) = setKv t x m := by
  induction m with
  | nil => simp [setKv]
  | cons kv rest ih =>
    obtain ⟨k, v⟩ := kv
    simp only [setKv]
    by_cases h : k = t
    · simp [h, setKv]
    · simp [h, setKv, ih]

theorem setKv_comm (a b : String) (x y c : J) (m : List (String × J)) (hab : a ≠ b) (hb : lookup b m = some c) :
    setKv a x (setKv b y m) = setKv b y (setKv a x m) := by
  induction m with
  | nil => simp [lookup] at hb
  | cons kv rest ih =>
    obtain ⟨k, v⟩ := kv
    simp only [lookup] at hb
    by_cases hkb : k = b
    · subst hkb
      have hka : ¬ k = a := fun h => hab h.symm
      simp [setKv, hka]
    · simp only [hkb, if_false] at hb
      by_cases hka : k = a
      · subst hka
        simp [setKv, hkb]
      · simp [setKv, hkb, hka, ih hb]

/-! ### positions that differ in every document -/

/-- two token paths that designate different positions whatever the document: one is a proper prefix of the
    other, or after a common prefix they continue with tokens that differ also when read as numerals -/
inductive PosDistinct : List String → List String → Prop
  | nil_cons (u : String) (us : List String) : PosDistinct [] (u :: us)
  | cons_nil (t : String) (ts : List String) : PosDistinct (t :: ts) []
  | same (t : String) {ts us : List String} : PosDistinct ts us → PosDistinct (t :: ts) (t :: us)
  | diff {t u : String} (ts us : List String) (hne : t ≠ u)
      (hnum : ∀ i, Spec.Pointer.natOfDigits t.toList = some i → Spec.Pointer.natOfDigits u.toList ≠ some i) :
      PosDistinct (t :: ts) (u :: us)

theorem PosDistinct.symm {p q : List String} (h : PosDistinct p q) : PosDistinct q p := by
  induction h with
  | nil_cons u us => exact .cons_nil u us
  | cons_nil t ts => exact .nil_cons t ts
  | same t _ ih => exact .same t ih
  | diff ts us hne hnum => exact .diff us ts hne.symm (fun i hu ht => hnum i ht hu)

/-! ### commutation -/

theorem updR_comm (r1 r2 : String) : ∀ (p q : List String) (k : Kind) (j j1 j12 : J),
    PosDistinct p q → updR r1 k j p = some j1 → updR r2 k j1 q = some j12 →
    ∃ j2, updR r2 k j q = some j2 ∧ updR r1 k j2 p = some j12 := by
  intro p
  induction p with
  | nil =>
    intro q k j j1 j12 hd h1 h2
    cases hd with
    | nil_cons u us =>
      simp only [updR] at h1
      split at h1
      next hk =>
        cases h1
        cases j with
        | obj kvs =>
          simp only [J.set, updR] at h2
          by_cases hu : u = "$ref"
          · subst hu
            rw [J.lookup_setKv_self] at h2
            simp only [childKind_schema_ref k hk, updR_other, Option.map_none] at h2
            cases h2
          · rw [J.lookup_setKv_ne _ _ _ _ hu] at h2
            cases hl : lookup u kvs with
            | none => simp [hl] at h2
            | some c =>
              have hck : childKind k (.obj (setKv "$ref" (.str r1) kvs)) u = childKind k (.obj kvs) u :=
                (childKind_congr k _ _ u (sameTags_set_ref (.obj kvs) (.str r1))).symm
              simp only [hl, hck, Option.map_eq_some_iff] at h2
              obtain ⟨c', hc', rfl⟩ := h2
              refine ⟨.obj (setKv u c' kvs), ?_, ?_⟩
              · simp [updR, hl, hc']
              · simp only [updR, hk, if_true, J.set]
                rw [setKv_comm "$ref" u (.str r1) c' c kvs (Ne.symm hu) hl]
        | arr xs =>
          simp only [J.set] at h2
          refine ⟨j12, h2, ?_⟩
          have := updR_tag r2 _ k _ _ h2
          cases j12 <;> simp [tag] at this
          simp [updR, hk, J.set]
        | null => simp [J.set, updR] at h2
        | bool b => simp [J.set, updR] at h2
        | num n => simp [J.set, updR] at h2
        | str s => simp [J.set, updR] at h2
      next => cases h1
  | cons t ts ih =>
    intro q k j j1 j12 hd h1 h2
    cases hd with
    | cons_nil _ _ =>
      -- the second update is at the node itself
      simp only [updR] at h2
      split at h2
      next hk =>
        cases h2
        cases j with
        | obj kvs =>
          simp only [updR] at h1
          cases hl : lookup t kvs with
          | none => simp [hl] at h1
          | some c =>
            simp only [hl, Option.map_eq_some_iff] at h1
            obtain ⟨c', hc', rfl⟩ := h1
            have ht : t ≠ "$ref" := by
              intro h; subst h
              rw [childKind_schema_ref k hk, updR_other] at hc'; cases hc'
            refine ⟨.obj (setKv "$ref" (.str r2) kvs), by simp [updR, hk, J.set], ?_⟩
            have hck : childKind k (.obj (setKv "$ref" (.str r2) kvs)) t = childKind k (.obj kvs) t :=
              (childKind_congr k _ _ t (sameTags_set_ref (.obj kvs) (.str r2))).symm
            simp only [updR, J.lookup_setKv_ne _ _ _ _ ht, hl, hck, hc', Option.map_some, J.set]
            rw [setKv_comm "$ref" t (.str r2) c' c kvs (Ne.symm ht) hl]
        | arr xs =>
          have := updR_tag r1 _ k _ _ h1
          cases j1 <;> simp [tag] at this
          exact ⟨.arr xs, by simp [updR, hk, J.set], by simpa [J.set] using h1⟩
        | null => simp [updR] at h1
        | bool b => simp [updR] at h1
        | num n => simp [updR] at h1
        | str s => simp [updR] at h1
      next => cases h2
    | same _ hd' =>
      rename_i us
      cases j with
      | obj kvs =>
        simp only [updR] at h1
        cases hl : lookup t kvs with
        | none => simp [hl] at h1
        | some c =>
          simp only [hl, Option.map_eq_some_iff] at h1
          obtain ⟨c1, hc1, rfl⟩ := h1
          have hk1 : childKind k (.obj (setKv t c1 kvs)) t = childKind k (.obj kvs) t :=
            (childKind_congr k _ _ t (sameTags_setKv kvs t c c1 hl (updR_tag r1 _ _ _ _ hc1))).symm
          simp only [updR, J.lookup_setKv_self, hk1, Option.map_eq_some_iff] at h2
          obtain ⟨c12, hc12, rfl⟩ := h2
          obtain ⟨c2, hc2, hc21⟩ := ih us _ c c1 c12 hd' hc1 hc12
          have hk2 : childKind k (.obj (setKv t c2 kvs)) t = childKind k (.obj kvs) t :=
            (childKind_congr k _ _ t (sameTags_setKv kvs t c c2 hl (updR_tag r2 _ _ _ _ hc2))).symm
          refine ⟨.obj (setKv t c2 kvs), by simp [updR, hl, hc2], ?_⟩
          simp [updR, J.lookup_setKv_self, hk2, hc21, setKv_setKv]
      | arr xs =>
        simp only [updR] at h1
        cases hn : Spec.Pointer.natOfDigits t.toList with
        | none => simp [hn] at h1
        | some i =>
          cases hx : xs[i]? with
          | none => simp [hn, hx] at h1
          | some c =>
            simp only [hn, hx, Option.map_eq_some_iff] at h1
            obtain ⟨c1, hc1, rfl⟩ := h1
            have hi : i < xs.length := by
              rcases Nat.lt_or_ge i xs.length with h | h
              · exact h
              · rw [List.getElem?_eq_none h] at hx; cases hx
            have hk1 : childKind k (.arr (xs.set i c1)) t = childKind k (.arr xs) t :=
              (childKind_congr k _ _ t (sameTags_arr _ _)).symm
            have hget : (xs.set i c1)[i]? = some c1 := by simp [hi]
            simp only [updR, hn, hget, hk1, Option.map_eq_some_iff] at h2
            obtain ⟨c12, hc12, rfl⟩ := h2
            obtain ⟨c2, hc2, hc21⟩ := ih us _ c c1 c12 hd' hc1 hc12
            have hk2 : childKind k (.arr (xs.set i c2)) t = childKind k (.arr xs) t :=
              (childKind_congr k _ _ t (sameTags_arr _ _)).symm
            have hget2 : (xs.set i c2)[i]? = some c2 := by simp [hi]
            refine ⟨.arr (xs.set i c2), by simp [updR, hn, hx, hc2], ?_⟩
            simp [updR, hn, hget2, hk2, hc21, List.set_set]
      | null => simp [updR] at h1
      | bool b => simp [updR] at h1
      | num n => simp [updR] at h1
      | str s => simp [updR] at h1
    | diff _ us hne hnum =>
      rename_i u
      cases j with
      | obj kvs =>
        simp only [updR] at h1
        cases hl : lookup t kvs with
        | none => simp [hl] at h1
        | some c =>
          simp only [hl, Option.map_eq_some_iff] at h1
          obtain ⟨c1, hc1, rfl⟩ := h1
          have hku : childKind k (.obj (setKv t c1 kvs)) u = childKind k (.obj kvs) u :=
            (childKind_congr k _ _ u (sameTags_setKv kvs t c c1 hl (updR_tag r1 _ _ _ _ hc1))).symm
          simp only [updR, J.lookup_setKv_ne _ _ _ _ (Ne.symm hne), hku] at h2
          cases hlu : lookup u kvs with
          | none => simp [hlu] at h2
          | some cu =>
            simp only [hlu, Option.map_eq_some_iff] at h2
            obtain ⟨cu2, hcu2, rfl⟩ := h2
            have hkt : childKind k (.obj (setKv u cu2 kvs)) t = childKind k (.obj kvs) t :=
              (childKind_congr k _ _ t (sameTags_setKv kvs u cu cu2 hlu (updR_tag r2 _ _ _ _ hcu2))).symm
            refine ⟨.obj (setKv u cu2 kvs), by simp [updR, hlu, hcu2], ?_⟩
            simp only [updR, J.lookup_setKv_ne _ _ _ _ hne, hl, hkt, hc1, Option.map_some]
            rw [setKv_comm u t cu2 c1 c kvs (Ne.symm hne) hl]
      | arr xs =>
        simp only [updR] at h1
        cases hn : Spec.Pointer.natOfDigits t.toList with
        | none => simp [hn] at h1
        | some i =>
          cases hx : xs[i]? with
          | none => simp [hn, hx] at h1
          | some c =>
            simp only [hn, hx, Option.map_eq_some_iff] at h1
            obtain ⟨c1, hc1, rfl⟩ := h1
            have hku : childKind k (.arr (xs.set i c1)) u = childKind k (.arr xs) u :=
              (childKind_congr k _ _ u (sameTags_arr _ _)).symm
            simp only [updR, hku] at h2
            cases hnu : Spec.Pointer.natOfDigits u.toList with
            | none => simp [hnu] at h2
            | some i' =>
              have hii : i ≠ i' := fun h => hnum i hn (h ▸ hnu)
              have hget : (xs.set i c1)[i']? = xs[i']? := by simp [List.getElem?_set, hii]
              simp only [hnu, hget] at h2
              cases hxu : xs[i']? with
              | none => simp [hxu] at h2
              | some cu =>
                simp only [hxu, Option.map_eq_some_iff] at h2
                obtain ⟨cu2, hcu2, rfl⟩ := h2
                have hkt : childKind k (.arr (xs.set i' cu2)) t = childKind k (.arr xs) t :=
                  (childKind_congr k _ _ t (sameTags_arr _ _)).symm
                have hget2 : (xs.set i' cu2)[i]? = xs[i]? := by simp [List.getElem?_set, Ne.symm hii]
                refine ⟨.arr (xs.set i' cu2), by simp [updR, hnu, hxu, hcu2], ?_⟩
                simp only [updR, hn, hget2, hx, hkt, hc1, Option.map_some]
                rw [List.set_comm _ _ hii]
      | null => simp [updR] at h1
      | bool b => simp [updR] at h1
      | num n => simp [updR] at h1
      | str s => simp [updR] at h1

/-- `UpdateRef` at two different positions: if one order succeeds, so does the other, with the same document -/
theorem updateRef_comm (d : J) (k1 k2 r1 r2 : String) (d' : J)
    (hd : PosDistinct (keyTokens k1) (keyTokens k2))
    (h : (updateRef d k1 r1 >>= fun d1 => updateRef d1 k2 r2) = .ok d') :
    (updateRef d k2 r2 >>= fun d2 => updateRef d2 k1 r1) = .ok d' := by
  obtain ⟨d1, h1, h2⟩ := OutcomeM.bind_eq_ok.1 h
  rw [updateRef_ok_iff] at h1 h2
  obtain ⟨d2, h3, h4⟩ := updR_comm r1 r2 _ _ _ _ _ _ hd h1 h2
  exact OutcomeM.bind_eq_ok.2 ⟨d2, (updateRef_ok_iff _ _ _ _).2 h3, (updateRef_ok_iff _ _ _ _).2 h4⟩

/-! ### a monadic fold whose steps commute does not depend on the order of the list -/

theorem foldlM_perm_of_comm {σ α : Type} (f : σ → α → Outcome σ) (R : α → α → Prop)
    (hsymm : ∀ {a b}, R a b → R b a)
    (hcomm : ∀ (s : σ) (a b : α) (s' : σ), R a b → (f s a >>= fun s1 => f s1 b) = .ok s' →
      (f s b >>= fun s1 => f s1 a) = .ok s')
    {l l' : List α} (hp : l.Perm l') :
    ∀ (s s' : σ), l.Pairwise R → l.foldlM f s = .ok s' → l'.foldlM f s = .ok s' := by
  induction hp with
  | nil => intro s s' _ h; exact h
  | cons a _ ih =>
    intro s s' hpw h
    simp only [List.foldlM_cons] at h ⊢
    obtain ⟨s1, h1, h2⟩ := OutcomeM.bind_eq_ok.1 h
    exact OutcomeM.bind_eq_ok.2 ⟨s1, h1, ih s1 s' (List.pairwise_cons.1 hpw).2 h2⟩
  | swap a b l =>
    intro s s' hpw h
    simp only [List.foldlM_cons] at h ⊢
    obtain ⟨s1, h1, h2⟩ := OutcomeM.bind_eq_ok.1 h
    obtain ⟨s2, h3, h4⟩ := OutcomeM.bind_eq_ok.1 h2
    have hR : R b a := (List.pairwise_cons.1 hpw).1 a (by simp)
    have := hcomm s b a s2 hR (OutcomeM.bind_eq_ok.2 ⟨s1, h1, h3⟩)
    obtain ⟨t1, h5, h6⟩ := OutcomeM.bind_eq_ok.1 this
    exact OutcomeM.bind_eq_ok.2 ⟨t1, h5, OutcomeM.bind_eq_ok.2 ⟨s2, h6, h4⟩⟩
  | trans p1 _ ih1 ih2 =>
    intro s s' hpw h
    exact ih2 s s' ((p1.pairwise_iff hsymm).1 hpw) (ih1 s s' hpw h)

/-- the relation between two entries of a reference map under which their updates commute -/
def KeysApart (a b : String × String) : Prop := PosDistinct (keyTokens a.1) (keyTokens b.1)

theorem KeysApart.symm {a b : String × String} (h : KeysApart a b) : KeysApart b a := PosDistinct.symm h

/-- a loop `for key, v := range m { r := g(v); UpdateRef(sp, key, r) }` over a map whose keys designate
    different positions yields the same document for every iteration order (and fails for every order if it
    fails for one) -/
theorem updateRefs_perm (g : String × String → Outcome String) {l l' : List (String × String)} (hp : l.Perm l')
    (hpw : l.Pairwise KeysApart) (d d' : J)
    (h : l.foldlM (fun d kv => do let r ← g kv; updateRef d kv.1 r) d = .ok d') :
    l'.foldlM (fun d kv => do let r ← g kv; updateRef d kv.1 r) d = .ok d' := by
  refine foldlM_perm_of_comm _ KeysApart KeysApart.symm ?_ hp d d' hpw h
  intro s a b s' hR hab
  obtain ⟨s1, h1, h2⟩ := OutcomeM.bind_eq_ok.1 hab
  obtain ⟨ra, hra, h1'⟩ := OutcomeM.bind_eq_ok.1 h1
  obtain ⟨rb, hrb, h2'⟩ := OutcomeM.bind_eq_ok.1 h2
  have := updateRef_comm s a.1 b.1 ra rb s' hR (OutcomeM.bind_eq_ok.2 ⟨s1, h1', h2'⟩)
  obtain ⟨t1, h3, h4⟩ := OutcomeM.bind_eq_ok.1 this
  exact OutcomeM.bind_eq_ok.2 ⟨t1, OutcomeM.bind_eq_ok.2 ⟨rb, hrb, h3⟩, OutcomeM.bind_eq_ok.2 ⟨ra, hra, h4⟩⟩

/-! ### the hypothesis is executable -/

theorem posDistinctB_sound : ∀ (p q : List String), posDistinctB p q = true → PosDistinct p q := by
  intro p
  induction p with
  | nil => intro q h; cases q with
    | nil => simp [posDistinctB] at h
    | cons u us => exact .nil_cons u us
  | cons t ts ih =>
    intro q h
    cases q with
    | nil => exact .cons_nil t ts
    | cons u us =>
      simp only [posDistinctB] at h
      by_cases htu : t = u
      · subst htu; simp only [if_true] at h; exact .same t (ih us h)
      · simp only [htu, if_false, Bool.not_eq_true'] at h
        refine .diff ts us htu ?_
        intro i hi hu
        simp [aliasNum, hi, hu] at h

theorem keysApartB_sound : ∀ (l : List (String × String)), keysApartB l = true → l.Pairwise KeysApart := by
  intro l
  induction l with
  | nil => intro _; exact List.Pairwise.nil
  | cons a rest ih =>
    intro h
    simp only [keysApartB, Bool.and_eq_true, List.all_eq_true] at h
    exact List.pairwise_cons.2 ⟨fun b hb => posDistinctB_sound _ _ (h.1 b hb), ih h.2⟩

end Proofs.UpdateComm
