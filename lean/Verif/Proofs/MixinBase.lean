import Verif.Model.Mixin
import Verif.Spec.Mixin
import Verif.Proofs.JsonLemmas
import Verif.Proofs.ListLemmas

/-!
  Building blocks for the Mixin proofs (C17, C18): more lemmas about JSON field access, and the
  three generic folds the merge is made of (first-wins insertion, de-duplicated append, fill-if-empty).
-/

namespace J

theorem isObj_set (j : J) (k : String) (v : J) : (j.set k v).isObj = j.isObj := by
  cases j <;> rfl

theorem isObj_iff (j : J) : j.isObj = true ↔ ∃ kvs, j = .obj kvs := by
  cases j <;> simp [isObj]

theorem getStr_set_self (j : J) (k s : String) (h : j.isObj = true) :
    (j.set k (.str s)).getStr k = s := by
  unfold getStr; rw [get?_set_self _ _ _ h]

theorem getStr_set_ne (j : J) (k k₂ : String) (v : J) (h : k₂ ≠ k) :
    (j.set k v).getStr k₂ = j.getStr k₂ := by
  unfold getStr; rw [get?_set_ne _ _ _ _ h]

theorem getObj_set_self (j : J) (k : String) (kvs : List (String × J)) (h : j.isObj = true) :
    (j.set k (.obj kvs)).getObj k = kvs := by
  unfold getObj; rw [get?_set_self _ _ _ h]

theorem getObj_set_ne (j : J) (k k₂ : String) (v : J) (h : k₂ ≠ k) :
    (j.set k v).getObj k₂ = j.getObj k₂ := by
  unfold getObj; rw [get?_set_ne _ _ _ _ h]

theorem getArr_set_self (j : J) (k : String) (xs : List J) (h : j.isObj = true) :
    (j.set k (.arr xs)).getArr k = xs := by
  unfold getArr; rw [get?_set_self _ _ _ h]

theorem getArr_set_ne (j : J) (k k₂ : String) (v : J) (h : k₂ ≠ k) :
    (j.set k v).getArr k₂ = j.getArr k₂ := by
  unfold getArr; rw [get?_set_ne _ _ _ _ h]

theorem getStr_congr (a b : J) (k : String) (h : a.get? k = b.get? k) : a.getStr k = b.getStr k := by
  unfold getStr; rw [h]

theorem getObj_congr (a b : J) (k : String) (h : a.get? k = b.get? k) : a.getObj k = b.getObj k := by
  unfold getObj; rw [h]

theorem getArr_congr (a b : J) (k : String) (h : a.get? k = b.get? k) : a.getArr k = b.getArr k := by
  unfold getArr; rw [h]

theorem lookup_append (k : String) (a b : List (String × J)) :
    lookup k (a ++ b) = (lookup k a).or (lookup k b) := by
  induction a with
  | nil => simp
  | cons kv rest ih =>
    obtain ⟨k', v'⟩ := kv
    simp only [List.cons_append, lookup]
    split
    · simp
    · exact ih

theorem lookup_isSome_iff (k : String) (kvs : List (String × J)) :
    (lookup k kvs).isSome = true ↔ k ∈ kvs.map (·.1) := by
  induction kvs with
  | nil => simp
  | cons kv rest ih =>
    obtain ⟨k', v'⟩ := kv
    simp only [lookup, List.map_cons, List.mem_cons]
    split
    · rename_i h; simp [h]
    · rename_i h
      rw [ih]
      constructor
      · exact Or.inr
      · rintro (e | e)
        · exact absurd e.symm h
        · exact e

theorem lookup_eq_none_iff (k : String) (kvs : List (String × J)) :
    lookup k kvs = none ↔ k ∉ kvs.map (·.1) := by
  rw [← lookup_isSome_iff]
  cases lookup k kvs <;> simp

theorem lookup_filter_pos (P : String → Bool) (k : String) (kvs : List (String × J)) (h : P k = true) :
    lookup k (kvs.filter fun kv => P kv.1) = lookup k kvs := by
  induction kvs with
  | nil => rfl
  | cons kv rest ih =>
    obtain ⟨k', v'⟩ := kv
    by_cases hk : k' = k
    · subst hk; simp [h, lookup]
    · by_cases hp : P k' = true
      · simp [hp, lookup, hk, ih]
      · simp [hp, lookup, hk, ih]

theorem lookup_filter_neg (P : String → Bool) (k : String) (kvs : List (String × J)) (h : P k = false) :
    lookup k (kvs.filter fun kv => P kv.1) = none := by
  rw [lookup_eq_none_iff]
  intro hm
  simp only [List.mem_map, List.mem_filter] at hm
  obtain ⟨kv, ⟨_, hp⟩, rfl⟩ := hm
  simp [h] at hp

/-- a key-preserving rewrite of the values commutes with lookup -/
theorem lookup_mem {k : String} {v : J} {kvs : List (String × J)} (h : lookup k kvs = some v) :
    (k, v) ∈ kvs := by
  induction kvs with
  | nil => simp at h
  | cons kv rest ih =>
    obtain ⟨k', v'⟩ := kv
    simp only [lookup] at h
    split at h
    · rename_i hk; subst hk; simp at h; subst h; simp
    · simp [ih h]

end J

namespace Proofs.Mixin
open J Spec.Mixin

/-! ## first-wins insertion -/

/-- the generic first-wins fold: entries of `mk` whose key passes `P` are appended to `pk` unless
    their key is already present, in which case the key is reported -/
def fw (P : String → Bool) : List (String × J) → List (String × J) → List (String × J) × List String
  | pk, [] => (pk, [])
  | pk, kv :: mk =>
    if P kv.1 then
      if (lookup kv.1 pk).isSome then ((fw P pk mk).1, kv.1 :: (fw P pk mk).2)
      else fw P (pk ++ [kv]) mk
    else fw P pk mk

def allKeys : String → Bool := fun _ => true

@[simp] theorem fw_nil (P : String → Bool) (pk : List (String × J)) : fw P pk [] = (pk, []) := by
  simp [fw]

theorem fw_cons_skip (P : String → Bool) (pk mk : List (String × J)) (kv : String × J)
    (hP : P kv.1 = false) : fw P pk (kv :: mk) = fw P pk mk := by
  simp [fw, hP]

theorem fw_cons_hit (P : String → Bool) (pk mk : List (String × J)) (kv : String × J)
    (hP : P kv.1 = true) (hs : (lookup kv.1 pk).isSome = true) :
    fw P pk (kv :: mk) = ((fw P pk mk).1, kv.1 :: (fw P pk mk).2) := by
  simp [fw, hP, hs]

theorem fw_cons_new (P : String → Bool) (pk mk : List (String × J)) (kv : String × J)
    (hP : P kv.1 = true) (hs : (lookup kv.1 pk).isSome = false) :
    fw P pk (kv :: mk) = fw P (pk ++ [kv]) mk := by
  simp [fw, hP, hs]

theorem fw_lookup (P : String → Bool) (k : String) (pk mk : List (String × J)) :
    lookup k (fw P pk mk).1 = (lookup k pk).or (lookup k (mk.filter fun kv => P kv.1)) := by
  induction mk generalizing pk with
  | nil => simp
  | cons kv mk ih =>
    obtain ⟨k', v'⟩ := kv
    cases hP : P k'
    · rw [fw_cons_skip _ _ _ _ hP]
      simp only [List.filter_cons, hP]
      exact ih pk
    · cases hs : (lookup k' pk).isSome
      · rw [fw_cons_new _ _ _ _ hP hs, ih]
        simp only [List.filter_cons, hP, if_true, lookup_append, lookup]
        by_cases hk : k' = k
        · subst hk
          cases h : lookup k' pk with
          | none => simp
          | some v => simp [h] at hs
        · simp [hk]
      · rw [fw_cons_hit _ _ _ _ hP hs]
        simp only [List.filter_cons, hP, if_true, ih, lookup]
        by_cases hk : k' = k
        · subst hk
          cases h : lookup k' pk with
          | none => simp [h] at hs
          | some v => simp
        · simp [hk]

/-- the fold only appends -/
theorem fw_prefix (P : String → Bool) (pk mk : List (String × J)) : ∃ t, (fw P pk mk).1 = pk ++ t := by
  induction mk generalizing pk with
  | nil => exact ⟨[], by simp⟩
  | cons kv mk ih =>
    cases hP : P kv.1
    · rw [fw_cons_skip _ _ _ _ hP]; exact ih pk
    · cases hs : (lookup kv.1 pk).isSome
      · rw [fw_cons_new _ _ _ _ hP hs]
        obtain ⟨t, ht⟩ := ih (pk ++ [kv])
        exact ⟨kv :: t, by rw [ht]; simp⟩
      · rw [fw_cons_hit _ _ _ _ hP hs]; exact ih pk

theorem fw_isEmpty (P : String → Bool) (pk mk : List (String × J)) (h : (fw P pk mk).1.isEmpty = true) :
    pk = [] := by
  obtain ⟨t, ht⟩ := fw_prefix P pk mk
  rw [ht] at h
  cases pk <;> simp_all

/-- the keys present after the fold -/
theorem fw_isSome (P : String → Bool) (k : String) (pk mk : List (String × J)) :
    (lookup k (fw P pk mk).1).isSome = true ↔
      (lookup k pk).isSome = true ∨ k ∈ (mk.filter fun kv => P kv.1).map (·.1) := by
  rw [fw_lookup, ← lookup_isSome_iff]
  cases lookup k pk <;> simp

/-- the reported keys only depend on which keys are present -/
theorem fw_warns_congr (P : String → Bool) (pk pk' mk : List (String × J))
    (h : ∀ k ∈ (mk.filter fun kv => P kv.1).map (·.1), (lookup k pk).isSome = (lookup k pk').isSome) :
    (fw P pk mk).2 = (fw P pk' mk).2 := by
  induction mk generalizing pk pk' with
  | nil => simp
  | cons kv mk ih =>
    obtain ⟨k', v'⟩ := kv
    cases hP : P k'
    · rw [fw_cons_skip _ _ _ _ hP, fw_cons_skip _ _ _ _ hP]
      apply ih
      intro k hk; exact h k (by simpa [hP] using hk)
    · have hk := h k' (by simp [hP])
      have hrest : ∀ k ∈ (mk.filter fun kv => P kv.1).map (·.1),
          (lookup k pk).isSome = (lookup k pk').isSome := by
        intro k hk
        exact h k (by simp only [List.filter_cons, hP, if_true, List.map_cons]; exact List.mem_cons_of_mem _ hk)
      cases hs : (lookup k' pk).isSome
      · rw [fw_cons_new _ _ _ _ hP hs, fw_cons_new _ _ _ _ hP (hk ▸ hs)]
        apply ih
        intro k hk
        simp only [lookup_append, lookup]
        have := hrest k hk
        by_cases e : k' = k
        · subst e; simp
        · simp [e, this]
      · rw [fw_cons_hit _ _ _ _ hP hs, fw_cons_hit _ _ _ _ hP (hk ▸ hs)]
        simp only
        rw [ih pk pk' hrest]

/-- with distinct offered keys, the reports are the offered keys already present at the start -/
theorem fw_warns (P : String → Bool) (pk mk : List (String × J))
    (hnd : ((mk.filter fun kv => P kv.1).map (·.1)).Nodup) :
    (fw P pk mk).2 = ((mk.filter fun kv => P kv.1).map (·.1)).filter fun k => (lookup k pk).isSome := by
  induction mk generalizing pk with
  | nil => simp
  | cons kv mk ih =>
    obtain ⟨k', v'⟩ := kv
    cases hP : P k'
    · rw [fw_cons_skip _ _ _ _ hP]
      simp only [List.filter_cons, hP] at hnd ⊢
      exact ih pk hnd
    · simp only [List.filter_cons, hP, if_true, List.map_cons, List.nodup_cons] at hnd ⊢
      cases hs : (lookup k' pk).isSome
      · rw [fw_cons_new _ _ _ _ hP hs]
        rw [fw_warns_congr P (pk ++ [(k', v')]) pk mk, ih pk hnd.2]
        · simp
        · intro k hk
          have : k' ≠ k := fun e => hnd.1 (e ▸ hk)
          simp [lookup_append, lookup, this]
      · rw [fw_cons_hit _ _ _ _ hP hs]
        simp [ih pk hnd.2]

/-- `mergeKeyedKvs` is the generic fold over all keys -/
theorem mergeKeyedKvs_fold (cat : String) (mk : List (String × J)) (acc : List (String × J) × List Mixin.Warn) :
    mk.foldl (fun (acc : List (String × J) × List Mixin.Warn) kv =>
      if (lookup kv.1 acc.1).isSome then (acc.1, acc.2 ++ [(cat, kv.1)]) else (acc.1 ++ [kv], acc.2)) acc
    = ((fw allKeys acc.1 mk).1, acc.2 ++ (fw allKeys acc.1 mk).2.map fun k => (cat, k)) := by
  induction mk generalizing acc with
  | nil => simp
  | cons kv mk ih =>
    simp only [List.foldl_cons]
    rw [ih]
    cases hs : (lookup kv.1 acc.1).isSome
    · rw [fw_cons_new _ _ _ _ rfl hs]; simp
    · rw [fw_cons_hit _ _ _ _ rfl hs]; simp

theorem mergeKeyedKvs_eq (cat : String) (pk mk : List (String × J)) :
    Mixin.mergeKeyedKvs cat pk mk = ((fw allKeys pk mk).1, (fw allKeys pk mk).2.map fun k => (cat, k)) := by
  unfold Mixin.mergeKeyedKvs
  rw [mergeKeyedKvs_fold]
  simp

theorem filter_allKeys (kvs : List (String × J)) : (kvs.filter fun kv => allKeys kv.1) = kvs := by
  simp [allKeys]

/-! ## de-duplicated append -/

theorem appendNew_fold (same : J → J → Bool) (ms : List J) (acc : List J × List J) :
    (ms.foldl (fun (acc : List J × List J) v =>
      if acc.1.any (same v) then (acc.1, acc.2 ++ [v]) else (acc.1 ++ [v], acc.2)) acc).1
      = unionNew same acc.1 ms ∧
    (ms.foldl (fun (acc : List J × List J) v =>
      if acc.1.any (same v) then (acc.1, acc.2 ++ [v]) else (acc.1 ++ [v], acc.2)) acc).1.length +
    (ms.foldl (fun (acc : List J × List J) v =>
      if acc.1.any (same v) then (acc.1, acc.2 ++ [v]) else (acc.1 ++ [v], acc.2)) acc).2.length
      = acc.1.length + acc.2.length + ms.length := by
  induction ms generalizing acc with
  | nil => simp [unionNew]
  | cons v ms ih =>
    simp only [List.foldl_cons, unionNew]
    cases h : acc.1.any (same v)
    · simp only [Bool.false_eq_true, if_false]
      have := ih (acc.1 ++ [v], acc.2)
      simp only [unionNew, List.length_append, List.length_cons, List.length_nil] at this ⊢
      exact ⟨this.1, by omega⟩
    · simp only [if_true]
      have := ih (acc.1, acc.2 ++ [v])
      simp only [unionNew, List.length_append, List.length_cons, List.length_nil] at this ⊢
      exact ⟨this.1, by omega⟩

theorem appendNew_fst (same : J → J → Bool) (ps ms : List J) :
    (Mixin.appendNew same ps ms).1 = unionNew same ps ms :=
  (appendNew_fold same ms (ps, [])).1

theorem appendNew_length (same : J → J → Bool) (ps ms : List J) :
    (unionNew same ps ms).length + (Mixin.appendNew same ps ms).2.length = ps.length + ms.length := by
  have := (appendNew_fold same ms (ps, [])).2
  rw [← appendNew_fst]
  simpa [Mixin.appendNew] using this

theorem unionNew_append (same : J → J → Bool) (ps a b : List J) :
    unionNew same ps (a ++ b) = unionNew same (unionNew same ps a) b := by
  simp [unionNew, List.foldl_append]

theorem unionNew_length_ge (same : J → J → Bool) (ps ms : List J) :
    ps.length ≤ (unionNew same ps ms).length := by
  induction ms generalizing ps with
  | nil => simp [unionNew]
  | cons v ms ih =>
    simp only [unionNew, List.foldl_cons]
    split
    · exact ih ps
    · have := ih (ps ++ [v])
      simp only [unionNew, List.length_append, List.length_cons, List.length_nil] at this
      omega

theorem sameTag_eq : Mixin.sameTag = Spec.Mixin.sameTag := rfl

theorem isExtKey_eq : Mixin.isExtKey = Spec.Mixin.isExtKey := rfl

end Proofs.Mixin
