import Verif.Proofs.Retarget

/-!
  The third kind of rewrite of the pointer phases (`flattenAnonPointer`, expansion branch, and `stripOAIGenForRef`):
  a `$ref` node is replaced by a copy of the schema its chain of `$ref`s ends at (`UpdateRefWithSchema`).

  Stated on bundles: the second bundle agrees with the first everywhere except at and below one position `kp`; in the
  first `kp` holds a `$ref` whose chain ends at the position `e`; in the second the sub-tree at `kp` is a copy of the
  sub-tree at `e`.  Then every good position denotes the same tree in both, and `kp ++ t` denotes in the second what
  `e ++ t` denotes in the first.
-/

namespace Proofs.Inline
open J Spec.Meaning _root_.Cert Proofs.Bisim Proofs.Move Proofs.Retarget

def ext (p : Pos) (t : List String) : Pos := (p.1, p.2 ++ t)

theorem ext_child (p : Pos) (t : List String) (k : String) : child (ext p t) k = ext p (t ++ [k]) := by
  simp [child, ext, List.append_assoc]

theorem ext_nil (p : Pos) : ext p [] = p := by simp [ext]

structure ISetting where
  b1 : Bundle
  b2 : Bundle
  kp : Pos
  e : Pos
  q0 : Pos
  Good : Pos → Prop
  a1 : J
  ne : J
  htarget : ∀ doc s, b2.target doc s = b1.target doc s
  hdoc : e.1 = kp.1
  /-- same nodes at good positions (which exclude everything at or below `kp`) -/
  hnodes : ∀ p, Good p →
    (b1.node p = none ∧ b2.node p = none) ∨
    (∃ a c, b1.node p = some a ∧ b2.node p = some c ∧ Doc.refStr c = Doc.refStr a ∧ ShapeEq a c)
  hk1 : b1.node kp = some a1
  hv1 : Doc.refStr a1 ≠ ""
  ht1 : b1.target kp.1 (Doc.refStr a1) = some q0
  hreach : Reaches b1 q0 e
  he : b1.node e = some ne
  hene : Doc.refStr ne = ""
  /-- the sub-tree at `kp` of the second bundle is a copy of the sub-tree at `e` of the first -/
  hcopy : ∀ t, b2.node (ext kp t) = b1.node (ext e t)
  hgoodT : ∀ doc s q, b1.target doc s = some q → Good q ∨ q = kp
  hgoodC : ∀ x a, Good x → b1.node x = some a →
    (∀ kvs, a = .obj kvs → ∀ key ∈ (visible kvs).map (·.1), Good (child x key) ∨ child x key = kp) ∧
    (∀ xs, a = .arr xs → ∀ i : Nat, Good (child x (toString i)) ∨ child x (toString i) = kp)

namespace ISetting
variable (S : ISetting)

/-- how the ends of two matching chases are related -/
def Rend (x y : Pos) : Prop := (x = y ∧ S.Good x) ∨ (x = S.e ∧ y = S.kp)

theorem chase_e (h : Nat) : chase S.b1 (h + 1) S.e = some S.e := by
  rw [Setting.chase_succ]; simp [S.he, S.hene]

theorem chase_kp2 (h : Nat) : chase S.b2 (h + 1) S.kp = some S.kp := by
  rw [Setting.chase_succ]
  have := S.hcopy []
  rw [ext_nil, ext_nil] at this
  simp [this, S.he, S.hene]

/-- in the first bundle the chain through `kp` ends at `e` -/
theorem chase_kp1 : ∃ m, chase S.b1 (m + 1) S.kp = some S.e := by
  obtain ⟨m, hm⟩ := reaches_chase_back S.b1 S.hreach 1 S.e (S.chase_e 0)
  refine ⟨1 + m, ?_⟩
  rw [Setting.chase_succ]
  simp only [S.hk1, ne_eq, S.hv1, not_false_eq_true, if_true, S.ht1]
  exact hm

theorem chase_kp1_end (h : Nat) (x : Pos) (hc : chase S.b1 h S.kp = some x) : x = S.e := by
  cases h with
  | zero => simp [chase] at hc
  | succ h =>
    rw [Setting.chase_succ] at hc
    simp only [S.hk1, ne_eq, S.hv1, not_false_eq_true, if_true, S.ht1] at hc
    have := reaches_chase S.b1 S.hreach h x hc
    cases h with
    | zero => simp [chase] at this
    | succ h => rw [S.chase_e h] at this; cases this; rfl

theorem chase_fwd : ∀ (h : Nat) (p x : Pos), S.Good p → chase S.b1 h p = some x →
    ∃ y, chase S.b2 h p = some y ∧ S.Rend x y := by
  intro h
  induction h with
  | zero => intro p x _ hc; simp [chase] at hc
  | succ h ih =>
    intro p x hg hc
    rcases S.hnodes p hg with ⟨h1, _⟩ | ⟨a, c, h1, h2, hr, _⟩
    · rw [Setting.chase_succ] at hc; simp [h1] at hc
    · rw [Setting.chase_succ] at hc ⊢
      simp only [h1] at hc
      simp only [h2, hr]
      by_cases hre : Doc.refStr a = ""
      · simp only [hre, ne_eq, not_true_eq_false, if_false, Option.some.injEq] at hc ⊢
        exact ⟨p, rfl, Or.inl ⟨hc.symm, hc ▸ hg⟩⟩
      · simp only [ne_eq, hre, not_false_eq_true, if_true, S.htarget] at hc ⊢
        cases ht : S.b1.target p.1 (Doc.refStr a) with
        | none => simp [ht] at hc
        | some tq =>
          simp only [ht] at hc ⊢
          rcases S.hgoodT _ _ _ ht with hgt | hkp
          · exact ih tq x hgt hc
          · subst hkp
            have hx := S.chase_kp1_end h x hc
            subst hx
            cases h with
            | zero => simp [chase] at hc
            | succ h => exact ⟨S.kp, S.chase_kp2 h, Or.inr ⟨rfl, rfl⟩⟩

theorem chase_bwd : ∀ (h : Nat) (p y : Pos), S.Good p → chase S.b2 h p = some y →
    ∃ h' x, chase S.b1 h' p = some x ∧ S.Rend x y := by
  intro h
  induction h with
  | zero => intro p y _ hc; simp [chase] at hc
  | succ h ih =>
    intro p y hg hc
    rcases S.hnodes p hg with ⟨_, h2⟩ | ⟨a, c, h1, h2, hr, _⟩
    · rw [Setting.chase_succ] at hc; simp [h2] at hc
    · rw [Setting.chase_succ] at hc
      simp only [h2, hr] at hc
      by_cases hre : Doc.refStr a = ""
      · simp only [hre, ne_eq, not_true_eq_false, if_false, Option.some.injEq] at hc
        refine ⟨1, p, ?_, Or.inl ⟨hc, hg⟩⟩
        rw [Setting.chase_succ]; simp [h1, hre]
      · simp only [ne_eq, hre, not_false_eq_true, if_true, S.htarget] at hc
        cases ht : S.b1.target p.1 (Doc.refStr a) with
        | none => simp [ht] at hc
        | some tq =>
          simp only [ht] at hc
          rcases S.hgoodT _ _ _ ht with hgt | hkp
          · obtain ⟨h', x, hx, hr'⟩ := ih tq y hgt hc
            refine ⟨h' + 1, x, ?_, hr'⟩
            rw [Setting.chase_succ]
            simp only [h1, ne_eq, hre, not_false_eq_true, if_true, ht]
            exact hx
          · subst hkp
            -- in the second bundle the chase stops at `kp`
            have hy : y = S.kp := by
              cases h with
              | zero => simp [chase] at hc
              | succ h => rw [S.chase_kp2 h] at hc; cases hc; rfl
            subst hy
            obtain ⟨m, hm⟩ := S.chase_kp1
            refine ⟨m + 1 + 1, S.e, ?_, Or.inr ⟨rfl, rfl⟩⟩
            rw [Setting.chase_succ]
            simp only [h1, ne_eq, hre, not_false_eq_true, if_true, ht]
            exact hm

/-- good positions keep their meaning; below `kp` the second bundle shows what the first shows below `e` -/
theorem inline_preserves (hops : Nat) (had : RSetting.Adequate S.b1 hops) (hpos : 0 < hops) :
    (∀ n p, S.Good p ∨ p = S.kp → unfold S.b1 hops n p = unfold S.b2 hops n p) ∧
    (∀ n t, unfold S.b1 hops n (ext S.e t) = unfold S.b2 hops n (ext S.kp t)) := by
  have key : ∀ n p q, ((p = q ∧ (S.Good p ∨ p = S.kp)) ∨ (∃ t, p = ext S.e t ∧ q = ext S.kp t)) →
      unfold S.b1 hops n p = unfold S.b2 hops n q := by
    intro n p q hR
    refine bisim_sound S.b1 S.b2 hops hops
      (fun p q => (p = q ∧ (S.Good p ∨ p = S.kp)) ∨ (∃ t, p = ext S.e t ∧ q = ext S.kp t)) ?_ n p q hR
    intro p q hpq
    -- the ends of the two chases are related, and related ends have agreeing nodes with related children
    have ends : ∀ x y, S.Rend x y ∨ (∃ t, x = ext S.e t ∧ y = ext S.kp t) →
        (∃ j, S.b1.node x = some j ∧ Doc.refStr j = "") →
        (match S.b1.node x, S.b2.node y with
         | some a, some c => NodesOK (fun p q => (p = q ∧ (S.Good p ∨ p = S.kp)) ∨ (∃ t, p = ext S.e t ∧ q = ext S.kp t)) x y a c
         | _, _ => False) := by
      intro x y hxy hx
      obtain ⟨j, hj, hrj⟩ := hx
      -- reduce to: either (x = y good) or (x = e ++ t, y = kp ++ t)
      have hcases : (x = y ∧ S.Good x) ∨ (∃ t, x = ext S.e t ∧ y = ext S.kp t) := by
        rcases hxy with (h | ⟨h1, h2⟩) | h
        · exact Or.inl h
        · exact Or.inr ⟨[], by rw [ext_nil]; exact h1, by rw [ext_nil]; exact h2⟩
        · exact Or.inr h
      rcases hcases with ⟨rfl, hg⟩ | ⟨t, rfl, rfl⟩
      · rcases S.hnodes x hg with ⟨h1, _⟩ | ⟨a, c, h1, h2, _, hs⟩
        · rw [h1] at hj; cases hj
        · simp only [h1, h2]
          unfold NodesOK
          unfold ShapeEq at hs
          split
          · exact ⟨hs, fun k hk => Or.inl ⟨rfl, (S.hgoodC x _ hg h1).1 _ rfl k hk⟩⟩
          · exact ⟨hs, fun i _ => Or.inl ⟨rfl, (S.hgoodC x _ hg h1).2 _ rfl i⟩⟩
          · rename_i hno hna
            split at hs
            · exact (hno _ _ rfl rfl).elim
            · exact (hna _ _ rfl rfl).elim
            · exact hs
      · rw [S.hcopy t, hj]
        simp only
        unfold NodesOK
        cases j with
        | obj kvs => exact ⟨rfl, fun k _ => Or.inr ⟨t ++ [k], ext_child _ _ _, ext_child _ _ _⟩⟩
        | arr xs => exact ⟨rfl, fun i _ => Or.inr ⟨t ++ [toString i], ext_child _ _ _, ext_child _ _ _⟩⟩
        | null => exact ⟨rfl, rfl, rfl⟩
        | bool b => exact ⟨rfl, rfl, rfl⟩
        | num n => exact ⟨rfl, rfl, rfl⟩
        | str s => exact ⟨rfl, rfl, rfl⟩
    unfold StepOK
    rcases hpq with ⟨rfl, hg | hkp⟩ | ⟨t, rfl, rfl⟩
    rotate_left
    · -- `kp` itself: the first bundle follows the `$ref` to `e`, the second stops at the copy
      subst hkp
      obtain ⟨m, hm⟩ := S.chase_kp1
      rw [had _ _ _ hm]
      obtain ⟨hops', rfl⟩ : ∃ k, hops = k + 1 := ⟨hops - 1, by omega⟩
      rw [S.chase_kp2 hops']
      exact ends _ _ (Or.inl (Or.inr ⟨rfl, rfl⟩)) ⟨S.ne, S.he, S.hene⟩
    rotate_left
    · -- the same good position on both sides
      cases hc : chase S.b1 hops p with
      | some x =>
        obtain ⟨y, hy, hr⟩ := S.chase_fwd hops p x hg hc
        rw [hy]
        exact ends x y (Or.inl hr) (Setting.chase_some_node S.b1 hops p x hc)
      | none =>
        cases hc2 : chase S.b2 hops p with
        | none => trivial
        | some y =>
          obtain ⟨h', x, hx, _⟩ := S.chase_bwd hops p y hg hc2
          rw [had h' p x hx] at hc; cases hc
    · -- `e ++ t` against `kp ++ t`: the same node on both sides
      obtain ⟨hops', rfl⟩ : ∃ k, hops = k + 1 := ⟨hops - 1, by omega⟩
      rw [Setting.chase_succ, Setting.chase_succ, S.hcopy t]
      cases hn : S.b1.node (ext S.e t) with
      | none => trivial
      | some j =>
        simp only
        by_cases hre : Doc.refStr j = ""
        · simp only [hre, ne_eq, not_true_eq_false, if_false]
          exact ends _ _ (Or.inr ⟨t, rfl, rfl⟩) ⟨j, hn, hre⟩
        · simp only [ne_eq, hre, not_false_eq_true, if_true, S.htarget]
          have hd : (ext S.kp t).1 = (ext S.e t).1 := by simp [ext, S.hdoc]
          rw [hd]
          cases ht : S.b1.target (ext S.e t).1 (Doc.refStr j) with
          | none => trivial
          | some tq =>
            simp only
            rcases S.hgoodT _ _ _ ht with hgt | hkp
            · cases hc : chase S.b1 hops' tq with
              | some x =>
                obtain ⟨y, hy, hr⟩ := S.chase_fwd hops' tq x hgt hc
                rw [hy]
                exact ends x y (Or.inl hr) (Setting.chase_some_node S.b1 hops' tq x hc)
              | none =>
                cases hc2 : chase S.b2 hops' tq with
                | none => trivial
                | some y =>
                  -- the first bundle needs more hops than the second: excluded by adequacy at `ext e t`
                  obtain ⟨h', x, hx, _⟩ := S.chase_bwd hops' tq y hgt hc2
                  have h1 : chase S.b1 (h' + 1) (ext S.e t) = some x := by
                    rw [Setting.chase_succ]; simp only [hn, ne_eq, hre, not_false_eq_true, if_true, ht]; exact hx
                  have h2 := had (h' + 1) _ x h1
                  rw [Setting.chase_succ] at h2
                  simp only [hn, ne_eq, hre, not_false_eq_true, if_true, ht] at h2
                  rw [h2] at hc; cases hc
            · subst hkp
              cases hc : chase S.b1 hops' S.kp with
              | some x =>
                have hx := S.chase_kp1_end hops' x hc
                subst hx
                cases hops' with
                | zero => simp [chase] at hc
                | succ k =>
                  rw [S.chase_kp2 k]
                  exact ends _ _ (Or.inl (Or.inr ⟨rfl, rfl⟩)) ⟨S.ne, S.he, S.hene⟩
              | none =>
                cases hc2 : chase S.b2 hops' S.kp with
                | none => trivial
                | some y =>
                  obtain ⟨m, hm⟩ := S.chase_kp1
                  have h1 : chase S.b1 (m + 1 + 1) (ext S.e t) = some S.e := by
                    rw [Setting.chase_succ]; simp only [hn, ne_eq, hre, not_false_eq_true, if_true, ht]; exact hm
                  have h2 := had _ _ _ h1
                  rw [Setting.chase_succ] at h2
                  simp only [hn, ne_eq, hre, not_false_eq_true, if_true, ht] at h2
                  rw [h2] at hc; cases hc
  exact ⟨fun n p hg => key n p p (Or.inl ⟨rfl, hg⟩), fun n t => key n _ _ (Or.inr ⟨t, rfl, rfl⟩)⟩

end ISetting
end Proofs.Inline
