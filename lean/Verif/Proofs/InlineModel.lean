import Verif.Proofs.Inline
import Verif.Proofs.RetargetModel

/-!
  `replace.UpdateRefWithSchema` that replaces a `$ref` by (a copy of) the schema its chain of `$ref`s ends at is an
  in-place expansion in the sense of `Proofs.Inline`.
-/

namespace Proofs.InlineModel
open J Replace Spec.Meaning Proofs.Retarget Proofs.Inline Proofs.RetargetModel Proofs.Move Proofs.MoveBase

theorem updateRefWithSchema_shape (d : J) (key : String) (sch d' : J) (h : updateRefWithSchema d key sch = .ok d') :
    setAt d (keyTokens key) sch = some d' := by
  unfold updateRefWithSchema at h
  simp only at h
  split at h
  · cases h
  · split at h
    · split at h
      · rename_i d'' hs; cases h; exact hs
      · cases h
    · cases h

/-- positions the identity part of the statement talks about: every position of an auxiliary document; in the root,
    canonically spelled paths that are not at or below the rewritten position -/
def GoodI (toks : List String) (p : Pos) : Prop :=
  p.1 ≠ "" ∨ (AllCanon p.2 ∧ ¬ toks <+: p.2)

/-- `UpdateRefWithSchema` with the schema at the end of the `$ref`'s own chain preserves the meaning of every good
    position and of the rewritten position itself; below it, the new bundle shows what the old one shows below the
    end of the chain -/
theorem setAt_inline_preserves (d d' : J) (toks : List String) (sch : J)
    (hset : setAt d toks sch = some d')
    (T : List (String × Pos)) (rest : Bundle) (a1 : J)
    (hget : Spec.Pointer.get d (toks) = some a1) (hv1 : Doc.refStr a1 ≠ "")
    (etoks : List String) (hsch : Spec.Pointer.get d etoks = some sch) (hobj : ∃ m, sch = .obj m)
    (hne : Doc.refStr sch = "")
    (q0 : Pos) (ht1 : T.lookup (Doc.refStr a1) = some q0)
    (hreach : Reaches (bundleWith d T rest) q0 ("", etoks))
    (hcanon : AllCanon (toks)) (hkeys : keysCanon d = true)
    (hgoodT : ∀ doc s q, (bundleWith d T rest).target doc s = some q →
      GoodI (toks) q ∨ q = ("", toks))
    (hops : Nat) (had : RSetting.Adequate (bundleWith d T rest) hops) (hpos : 0 < hops) :
    (∀ n p, GoodI (toks) p ∨ p = ("", toks) →
      unfold (bundleWith d T rest) hops n p = unfold (bundleWith d' T rest) hops n p) ∧
    (∀ n t, unfold (bundleWith d T rest) hops n ("", etoks ++ t) =
      unfold (bundleWith d' T rest) hops n ("", toks ++ t)) := by
  have hobj1 := refStr_obj hv1
  let S : ISetting := {
    b1 := bundleWith d T rest
    b2 := bundleWith d' T rest
    kp := ("", toks)
    e := ("", etoks)
    q0 := q0
    Good := GoodI (toks)
    a1 := a1
    ne := sch
    htarget := fun _ _ => rfl
    hdoc := rfl
    hnodes := by
      intro p hg
      by_cases hp1 : p.1 = ""
      · obtain ⟨pd, pp⟩ := p
        simp only at hp1; subst hp1
        rw [node_root, node_root]
        have hgp : AllCanon pp ∧ ¬ toks <+: pp := by
          rcases hg with hg | hg
          · exact absurd rfl hg
          · exact hg
        have same : Spec.Pointer.get d' pp = Spec.Pointer.get d pp →
            (Spec.Pointer.get d pp = none ∧ Spec.Pointer.get d' pp = none) ∨
            (∃ a c, Spec.Pointer.get d pp = some a ∧ Spec.Pointer.get d' pp = some c ∧ Doc.refStr c = Doc.refStr a ∧ ShapeEq a c) := by
          intro he
          cases hx : Spec.Pointer.get d pp with
          | none => exact Or.inl ⟨rfl, by rw [he, hx]⟩
          | some a => exact Or.inr ⟨a, a, rfl, by rw [he, hx], rfl, shapeEq_refl a⟩
        rcases list_cases pp (toks) with heq | ⟨s, hs, hpre⟩ | ⟨s, _, hext⟩ | ⟨c, x, y, rx, ry, hxy, h1, h2⟩
        · exact absurd (by rw [heq]; exact List.prefix_refl _) hgp.2
        · rw [hpre] at hset hget
          obtain ⟨j, j', hj, hj', hsj⟩ := get_setAt_ancestor d pp s _ d' hset
          cases s with
          | nil => exact absurd rfl hs
          | cons t ts =>
            refine Or.inr ⟨j, j', hj, hj', ?_, shapeEq_of_sameShape (setAt_sameShape j t ts _ j' hsj)⟩
            refine Setting.setAt_refStr j (t :: ts) (by simp) _ j' hsj ?_ hobj
            intro c hc
            rw [get_append, hj] at hget
            simp only [Option.bind_some] at hget
            rw [hget] at hc; cases hc
            exact hobj1
        · exact absurd ⟨s, hext.symm⟩ hgp.2
        · apply same
          rw [h1]
          rw [h2] at hset
          have hcx : CanonTok x := hgp.1 x (by rw [h1]; simp)
          have hcy : CanonTok y := hcanon y (by rw [h2]; simp)
          exact get_setAt_diverge d c y x ry rx _ d' (Ne.symm hxy) hcy hcx hset
      · rw [node_aux d d' T rest p hp1]
        cases hx : (bundleWith d T rest).node p with
        | none => exact Or.inl ⟨rfl, rfl⟩
        | some a => exact Or.inr ⟨a, a, rfl, rfl, rfl, shapeEq_refl a⟩
    hk1 := by rw [node_root]; exact hget
    hv1 := hv1
    ht1 := by simpa [bundleWith, Bundle.target, List.lookup] using ht1
    hreach := hreach
    he := by rw [node_root]; exact hsch
    hene := hne
    hcopy := by
      intro t
      show (bundleWith d' T rest).node ("", toks ++ t) = (bundleWith d T rest).node ("", etoks ++ t)
      rw [node_root, node_root, get_append, get_append, get_setAt_self _ _ _ _ hset, hsch]
    hgoodT := hgoodT
    hgoodC := by
      intro x a hg hn
      by_cases he1 : x.1 = ""
      · obtain ⟨xd, xp⟩ := x
        simp only at he1; subst he1
        rw [node_root] at hn
        have hgp : AllCanon xp ∧ ¬ toks <+: xp := by
          rcases hg with hg | hg
          · exact absurd rfl hg
          · exact hg
        have hchild : ∀ k, CanonTok k →
            GoodI (toks) (child ("", xp) k) ∨ child ("", xp) k = ("", toks) := by
          intro k hk
          by_cases hpre : toks <+: xp ++ [k]
          · rcases List.prefix_concat_iff.1 hpre with heq | hp
            · exact Or.inr (by simp [child, heq])
            · exact absurd hp hgp.2
          · refine Or.inl (Or.inr ⟨?_, by simpa [child] using hpre⟩)
            intro t ht
            simp only [child, List.mem_append, List.mem_singleton] at ht
            rcases ht with ht | ht
            · exact hgp.1 t ht
            · exact ht ▸ hk
        constructor
        · intro kvs hk key' hkey
          subst hk
          have hkc := keysCanon_get d hkeys xp _ hn
          exact hchild key' (keysCanonKvs_keys kvs (by simpa [keysCanon] using hkc) key' (Setting.mem_visible_mem kvs key' hkey))
        · intro xs _ i
          exact hchild (toString i) (canonTok_toString i)
      · constructor
        · intro _ _ key' _; exact Or.inl (Or.inl (by simpa [child] using he1))
        · intro _ _ i; exact Or.inl (Or.inl (by simpa [child] using he1)) }
  have := S.inline_preserves hops had hpos
  exact ⟨this.1, fun n t => this.2 n t⟩

/-- the same for `Replace.updateRefWithSchema` on an analyzer key -/
theorem updateRefWithSchema_inline_preserves (d d' : J) (key : String) (sch : J)
    (h : updateRefWithSchema d key sch = .ok d')
    (T : List (String × Pos)) (rest : Bundle) (a1 : J)
    (hget : Spec.Pointer.get d (keyTokens key) = some a1) (hv1 : Doc.refStr a1 ≠ "")
    (etoks : List String) (hsch : Spec.Pointer.get d etoks = some sch) (hobj : ∃ m, sch = .obj m)
    (hne : Doc.refStr sch = "")
    (q0 : Pos) (ht1 : T.lookup (Doc.refStr a1) = some q0)
    (hreach : Reaches (bundleWith d T rest) q0 ("", etoks))
    (hcanon : AllCanon (keyTokens key)) (hkeys : keysCanon d = true)
    (hgoodT : ∀ doc s q, (bundleWith d T rest).target doc s = some q →
      GoodI (keyTokens key) q ∨ q = ("", keyTokens key))
    (hops : Nat) (had : RSetting.Adequate (bundleWith d T rest) hops) (hpos : 0 < hops) :
    (∀ n p, GoodI (keyTokens key) p ∨ p = ("", keyTokens key) →
      unfold (bundleWith d T rest) hops n p = unfold (bundleWith d' T rest) hops n p) ∧
    (∀ n t, unfold (bundleWith d T rest) hops n ("", etoks ++ t) =
      unfold (bundleWith d' T rest) hops n ("", keyTokens key ++ t)) :=
  setAt_inline_preserves d d' (keyTokens key) sch (updateRefWithSchema_shape d key sch d' h) T rest a1 hget hv1 etoks hsch
    hobj hne q0 ht1 hreach hcanon hkeys hgoodT hops had hpos

end Proofs.InlineModel
