import Verif.Model.Str

/-! `url.PathUnescape` is the identity on strings without a percent byte -/

namespace UrlLemmas

theorem loop_eq (ba : ByteArray) : ∀ (n i : Nat) (r : List UInt8), ba.size - i = n →
    ByteArray.toList.loop ba i r = r.reverse ++ ba.data.toList.drop i := by
  have hs : ba.size = ba.data.toList.length := by
    show ba.data.size = _
    simp
  intro n
  induction n with
  | zero =>
    intro i r h
    unfold ByteArray.toList.loop
    have : ¬ i < ba.size := by omega
    rw [if_neg this]
    have : ba.data.toList.drop i = [] := List.drop_eq_nil_of_le (by omega)
    rw [this, List.append_nil]
  | succ n ih =>
    intro i r h
    unfold ByteArray.toList.loop
    have hi : i < ba.size := by omega
    rw [if_pos hi, ih (i+1) _ (by omega)]
    have hlen : i < ba.data.toList.length := by omega
    rw [List.drop_eq_getElem_cons hlen, List.reverse_cons, List.append_assoc]
    congr 1
    show ba.get! i :: _ = _
    congr 1
    have : ba.get! i = ba.data[i]! := rfl
    rw [this]
    have hi' : i < ba.data.size := by simpa using hlen
    rw [getElem!_pos ba.data i hi']
    simp

theorem toList_eq (ba : ByteArray) : ba.toList = ba.data.toList := by
  unfold ByteArray.toList
  rw [loop_eq ba _ 0 [] rfl]
  simp

theorem mk_toList (ba : ByteArray) : ByteArray.mk ba.toList.toArray = ba := by
  rw [toList_eq]

theorem fromUTF8?_toUTF8 (s : String) : String.fromUTF8? s.toUTF8 = some s := by
  unfold String.fromUTF8? String.toUTF8
  rw [dif_pos s.isValidUTF8]
  rfl

theorem unescBytes_plain : ∀ (bs : List UInt8), (37 : UInt8) ∉ bs → Str.unescBytes bs = some bs
  | [], _ => rfl
  | c :: rest, h => by
    have hc : c ≠ 37 := fun e => h (e ▸ List.mem_cons_self)
    have hr : (37 : UInt8) ∉ rest := fun e => h (List.mem_cons_of_mem _ e)
    have ih := unescBytes_plain rest hr
    unfold Str.unescBytes
    split
    · rename_i heq; cases heq
    · rename_i heq; cases heq; exact absurd rfl hc
    · rename_i heq; cases heq; exact absurd rfl hc
    · rename_i heq
      cases heq
      rw [ih]; rfl

theorem pathUnescape_plain (s : String) (h : (37 : UInt8) ∉ s.toUTF8.toList) : Str.pathUnescape s = some s := by
  unfold Str.pathUnescape
  rw [unescBytes_plain _ h]
  simp only [Option.bind_some]
  rw [mk_toList]
  exact fromUTF8?_toUTF8 s

end UrlLemmas
