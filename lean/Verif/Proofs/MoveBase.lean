import Verif.Proofs.FlattenNames
import Verif.Proofs.Pointer

/-!
  `Spec.Pointer.get` against the two writes of a naming move: `Replace.setAt` (put a node at a token
  path) and `Flatten.save` (add a definition).
-/

namespace Proofs.MoveBase
open J Replace Proofs.FlattenNames

/-! ### `get` through `setAt` -/

theorem get_append (d : J) (p t : List String) :
    Spec.Pointer.get d (p ++ t) = (Spec.Pointer.get d p).bind fun j => Spec.Pointer.get j t := by
  induction p generalizing d with
  | nil => simp [Spec.Pointer.get]
  | cons a p ih =>
    simp only [List.cons_append, Spec.Pointer.get]
    cases Spec.Pointer.step d a with
    | none => simp
    | some c => simp [ih]

/-- what is found at the path that was written -/
theorem get_setAt_self (d : J) (toks : List String) (v d' : J) (h : setAt d toks v = some d') :
    Spec.Pointer.get d' toks = some v := by
  induction toks generalizing d d' with
  | nil => simp [setAt] at h; subst h; rfl
  | cons t ts ih =>
    cases d with
    | obj kvs =>
      simp only [setAt] at h
      cases hl : lookup t kvs with
      | none => simp [hl] at h
      | some c =>
        simp only [hl, Option.map_eq_some_iff] at h
        obtain ⟨c', hc, rfl⟩ := h
        simp only [Spec.Pointer.get, Spec.Pointer.step, lookup_setKv_self, Option.bind_some]
        exact ih c c' hc
    | arr xs =>
      simp only [setAt] at h
      cases hn : Spec.Pointer.natOfDigits t.toList with
      | none => simp [hn] at h
      | some i =>
        simp only [hn] at h
        cases hx : xs[i]? with
        | none => simp [hx] at h
        | some c =>
          simp only [hx, Option.map_eq_some_iff] at h
          obtain ⟨c', hc, rfl⟩ := h
          have hi : i < xs.length := by
            rcases List.getElem?_eq_some_iff.1 hx with ⟨hlt, _⟩; exact hlt
          simp only [Spec.Pointer.get, Spec.Pointer.step, hn, Option.bind_some]
          rw [List.getElem?_set_self (by simpa using hi)]
          simp only [Option.bind_some]
          exact ih c c' hc
    | null => simp [setAt] at h
    | bool b => simp [setAt] at h
    | num n => simp [setAt] at h
    | str s => simp [setAt] at h

/-- the path that is written exists before -/
theorem get_of_setAt (d : J) (toks : List String) (v d' : J) (h : setAt d toks v = some d') :
    ∃ old, Spec.Pointer.get d toks = some old := by
  induction toks generalizing d d' with
  | nil => exact ⟨d, rfl⟩
  | cons t ts ih =>
    cases d with
    | obj kvs =>
      simp only [setAt] at h
      cases hl : lookup t kvs with
      | none => simp [hl] at h
      | some c =>
        simp only [hl, Option.map_eq_some_iff] at h
        obtain ⟨c', hc, rfl⟩ := h
        obtain ⟨old, ho⟩ := ih c c' hc
        exact ⟨old, by simp [Spec.Pointer.get, Spec.Pointer.step, hl, ho]⟩
    | arr xs =>
      simp only [setAt] at h
      cases hn : Spec.Pointer.natOfDigits t.toList with
      | none => simp [hn] at h
      | some i =>
        simp only [hn] at h
        cases hx : xs[i]? with
        | none => simp [hx] at h
        | some c =>
          simp only [hx, Option.map_eq_some_iff] at h
          obtain ⟨c', hc, rfl⟩ := h
          obtain ⟨old, ho⟩ := ih c c' hc
          exact ⟨old, by simp [Spec.Pointer.get, Spec.Pointer.step, hn, hx, ho]⟩
    | null => simp [setAt] at h
    | bool b => simp [setAt] at h
    | num n => simp [setAt] at h
    | str s => simp [setAt] at h

/-- one level: the node holding the written path keeps its shape -/
inductive SameShape : J → J → Prop
  | obj (k1 k2 : List (String × J)) (t : String)
      (hkeys : k2.map (·.1) = k1.map (·.1))
      (hothers : ∀ k, k ≠ t → lookup k k2 = lookup k k1) : SameShape (.obj k1) (.obj k2)
  | arr (x1 x2 : List J) (hlen : x2.length = x1.length) : SameShape (.arr x1) (.arr x2)

theorem setAt_sameShape (j : J) (t : String) (ts : List String) (v j' : J) (h : setAt j (t :: ts) v = some j') :
    SameShape j j' := by
  cases j with
  | obj kvs =>
    simp only [setAt] at h
    cases hl : lookup t kvs with
    | none => simp [hl] at h
    | some c =>
      simp only [hl, Option.map_eq_some_iff] at h
      obtain ⟨c', _, rfl⟩ := h
      exact SameShape.obj kvs _ t (setKv_keys_of_lookup t c c' kvs hl) (fun k hk => lookup_setKv_ne _ _ _ _ hk)
  | arr xs =>
    simp only [setAt] at h
    cases hn : Spec.Pointer.natOfDigits t.toList with
    | none => simp [hn] at h
    | some i =>
      simp only [hn] at h
      cases hx : xs[i]? with
      | none => simp [hx] at h
      | some c =>
        simp only [hx, Option.map_eq_some_iff] at h
        obtain ⟨c', _, rfl⟩ := h
        exact SameShape.arr xs _ (by simp)
  | null => simp [setAt] at h
  | bool b => simp [setAt] at h
  | num n => simp [setAt] at h
  | str s => simp [setAt] at h

/-- an ancestor of the written path: the node found there before is rewritten below itself -/
theorem get_setAt_ancestor (d : J) (p s : List String) (v d' : J) (h : setAt d (p ++ s) v = some d') :
    ∃ j j', Spec.Pointer.get d p = some j ∧ Spec.Pointer.get d' p = some j' ∧ setAt j s v = some j' := by
  induction p generalizing d d' with
  | nil => exact ⟨d, d', rfl, rfl, h⟩
  | cons t ts ih =>
    cases d with
    | obj kvs =>
      simp only [List.cons_append, setAt] at h
      cases hl : lookup t kvs with
      | none => simp [hl] at h
      | some c =>
        simp only [hl, Option.map_eq_some_iff] at h
        obtain ⟨c', hc, rfl⟩ := h
        obtain ⟨j, j', h1, h2, h3⟩ := ih c c' hc
        exact ⟨j, j', by simp [Spec.Pointer.get, Spec.Pointer.step, hl, h1],
          by simp [Spec.Pointer.get, Spec.Pointer.step, lookup_setKv_self, h2], h3⟩
    | arr xs =>
      simp only [List.cons_append, setAt] at h
      cases hn : Spec.Pointer.natOfDigits t.toList with
      | none => simp [hn] at h
      | some i =>
        simp only [hn] at h
        cases hx : xs[i]? with
        | none => simp [hx] at h
        | some c =>
          simp only [hx, Option.map_eq_some_iff] at h
          obtain ⟨c', hc, rfl⟩ := h
          obtain ⟨j, j', h1, h2, h3⟩ := ih c c' hc
          have hi : i < xs.length := by
            rcases List.getElem?_eq_some_iff.1 hx with ⟨hlt, _⟩; exact hlt
          refine ⟨j, j', by simp [Spec.Pointer.get, Spec.Pointer.step, hn, hx, h1], ?_, h3⟩
          simp only [Spec.Pointer.get, Spec.Pointer.step, hn, Option.bind_some]
          rw [List.getElem?_set_self (by simpa using hi)]
          simpa using h2
    | null => simp [setAt] at h
    | bool b => simp [setAt] at h
    | num n => simp [setAt] at h
    | str s => simp [setAt] at h

/-- a token that, when it reads as a number, is the canonical decimal numeral ("7", not "007") -/
def canonTokB (t : String) : Bool :=
  match Spec.Pointer.natOfDigits t.toList with
  | some i => t == toString i
  | none => true

def CanonTok (t : String) : Prop := canonTokB t = true

theorem CanonTok.eq {t : String} (h : CanonTok t) (i : Nat) (hi : Spec.Pointer.natOfDigits t.toList = some i) :
    t = toString i := by
  unfold CanonTok canonTokB at h
  rw [hi] at h
  simpa using h

theorem canonTok_toString (i : Nat) : CanonTok (toString i) := by
  unfold CanonTok canonTokB
  rw [PointerProof.natOfDigits_toString]
  simp

theorem canon_index_ne {a b : String} (ha : CanonTok a) (hb : CanonTok b) (hab : a ≠ b) (i m : Nat)
    (h1 : Spec.Pointer.natOfDigits a.toList = some i) (h2 : Spec.Pointer.natOfDigits b.toList = some m) : i ≠ m := by
  intro e
  subst e
  exact hab ((ha.eq i h1).trans (hb.eq i h2).symm)

/-- a path that leaves the written path at some token: untouched (array indices spelled canonically) -/
theorem get_setAt_diverge (d : J) (c : List String) (a b : String) (ra rb : List String) (v d' : J)
    (hab : a ≠ b) (hca : CanonTok a) (hcb : CanonTok b) (h : setAt d (c ++ a :: ra) v = some d') :
    Spec.Pointer.get d' (c ++ b :: rb) = Spec.Pointer.get d (c ++ b :: rb) := by
  induction c generalizing d d' with
  | nil =>
    cases d with
    | obj kvs =>
      simp only [List.nil_append, setAt] at h
      cases hl : lookup a kvs with
      | none => simp [hl] at h
      | some x =>
        simp only [hl, Option.map_eq_some_iff] at h
        obtain ⟨x', _, rfl⟩ := h
        simp [Spec.Pointer.get, Spec.Pointer.step, lookup_setKv_ne _ _ _ _ (Ne.symm hab)]
    | arr xs =>
      simp only [List.nil_append, setAt] at h
      cases hn : Spec.Pointer.natOfDigits a.toList with
      | none => simp [hn] at h
      | some i =>
        simp only [hn] at h
        cases hx : xs[i]? with
        | none => simp [hx] at h
        | some x =>
          simp only [hx, Option.map_eq_some_iff] at h
          obtain ⟨x', _, rfl⟩ := h
          simp only [List.nil_append, Spec.Pointer.get, Spec.Pointer.step]
          cases hm : Spec.Pointer.natOfDigits b.toList with
          | none => simp
          | some m =>
            simp only [Option.bind_some]
            have him : i ≠ m := canon_index_ne hca hcb hab i m hn hm
            rw [List.getElem?_set_ne him]
    | null => simp [setAt] at h
    | bool b => simp [setAt] at h
    | num n => simp [setAt] at h
    | str s => simp [setAt] at h
  | cons t ts ih =>
    cases d with
    | obj kvs =>
      simp only [List.cons_append, setAt] at h
      cases hl : lookup t kvs with
      | none => simp [hl] at h
      | some x =>
        simp only [hl, Option.map_eq_some_iff] at h
        obtain ⟨x', hx, rfl⟩ := h
        simp only [List.cons_append, Spec.Pointer.get, Spec.Pointer.step, lookup_setKv_self, hl, Option.bind_some]
        exact ih x x' hx
    | arr xs =>
      simp only [List.cons_append, setAt] at h
      cases hn : Spec.Pointer.natOfDigits t.toList with
      | none => simp [hn] at h
      | some i =>
        simp only [hn] at h
        cases hx : xs[i]? with
        | none => simp [hx] at h
        | some x =>
          simp only [hx, Option.map_eq_some_iff] at h
          obtain ⟨x', hx', rfl⟩ := h
          have hi : i < xs.length := by
            rcases List.getElem?_eq_some_iff.1 hx with ⟨hlt, _⟩; exact hlt
          simp only [List.cons_append, Spec.Pointer.get, Spec.Pointer.step, hn, Option.bind_some, hx]
          rw [List.getElem?_set_self (by simpa using hi)]
          simp only [Option.bind_some]
          exact ih x x' hx'
    | null => simp [setAt] at h
    | bool b => simp [setAt] at h
    | num n => simp [setAt] at h
    | str s => simp [setAt] at h

/-! ### paths against the written path -/

/-- how a path lies with respect to the written path -/
inductive PathRel (p toks : List String) : Prop
  /-- at or below it -/
  | below (t : List String) (h : p = toks ++ t)
  /-- a strict prefix of it -/
  | above (s : List String) (hs : s ≠ []) (h : toks = p ++ s)
  /-- leaves it at some token -/
  | diverge (c : List String) (a b : String) (ra rb : List String) (hab : a ≠ b)
      (hp : p = c ++ a :: ra) (ht : toks = c ++ b :: rb)

theorem pathRel : ∀ (p toks : List String), PathRel p toks := by
  intro p
  induction p with
  | nil =>
    intro toks
    cases toks with
    | nil => exact .below [] rfl
    | cons b t => exact .above (b :: t) (by simp) rfl
  | cons a p ih =>
    intro toks
    cases toks with
    | nil => exact .below (a :: p) rfl
    | cons b t =>
      by_cases hab : a = b
      · subst hab
        cases ih t with
        | below t' h => exact .below t' (by simp [h])
        | above s hs h => exact .above s hs (by simp [h])
        | diverge c x y ra rb hxy hp ht => exact .diverge (a :: c) x y ra rb hxy (by simp [hp]) (by simp [ht])
      · exact .diverge [] a b p t hab rfl rfl

/-! ### `get` through `save` -/

theorem get_cons_obj (kvs : List (String × J)) (k : String) (rest : List String) :
    Spec.Pointer.get (.obj kvs) (k :: rest) = (lookup k kvs).bind fun c => Spec.Pointer.get c rest := by
  simp [Spec.Pointer.get, Spec.Pointer.step]

/-- a path that does not enter `definitions` is not affected by `save` -/
theorem get_save_other (kvs : List (String × J)) (n : String) (s' : J) (k : String) (rest : List String)
    (hk : k ≠ "definitions") :
    Spec.Pointer.get (Flatten.save (.obj kvs) n s') (k :: rest) = Spec.Pointer.get (.obj kvs) (k :: rest) := by
  simp only [Flatten.save, J.set, get_cons_obj, lookup_setKv_ne _ _ _ _ hk]

/-- nor is a path into another definition (when `definitions` is an object or absent) -/
theorem get_save_def_other (kvs : List (String × J)) (n : String) (s' : J) (m : String) (rest : List String)
    (hm : m ≠ n) (hdefs : ∀ v, lookup "definitions" kvs = some v → ∃ defs, v = .obj defs) :
    Spec.Pointer.get (Flatten.save (.obj kvs) n s') ("definitions" :: m :: rest)
      = Spec.Pointer.get (.obj kvs) ("definitions" :: m :: rest) := by
  simp only [Flatten.save, J.set, get_cons_obj, lookup_setKv_self, Option.bind_some, lookup_setKv_ne _ _ _ _ hm]
  cases hl : lookup "definitions" kvs with
  | none => simp [getObj, get?, hl]
  | some v =>
    obtain ⟨defs, rfl⟩ := hdefs v hl
    simp [getObj, get?, hl, get_cons_obj]

/-- the new definition holds the saved schema -/
theorem get_save_def_self (kvs : List (String × J)) (n : String) (s' : J) (t : List String) :
    Spec.Pointer.get (Flatten.save (.obj kvs) n s') ("definitions" :: n :: t) = Spec.Pointer.get s' t := by
  simp only [Flatten.save, J.set, get_cons_obj, lookup_setKv_self, Option.bind_some]

theorem mem_keys_of_lookup (k : String) (x : J) : ∀ (m : List (String × J)), lookup k m = some x → k ∈ m.map (·.1) := by
  intro m
  induction m with
  | nil => intro h; simp [lookup] at h
  | cons kv rest ih =>
    intro h
    obtain ⟨k', v'⟩ := kv
    simp only [lookup] at h
    split at h
    · rename_i hk; subst hk; simp
    · simp [ih h]

/-! ### canonical keys -/

mutual
  /-- every key of every object of the tree is canonical as a token -/
  def keysCanon : J → Bool
    | .obj kvs => keysCanonKvs kvs
    | .arr xs => keysCanonList xs
    | _ => true
  def keysCanonKvs : List (String × J) → Bool
    | [] => true
    | (k, v) :: rest => canonTokB k && keysCanon v && keysCanonKvs rest
  def keysCanonList : List J → Bool
    | [] => true
    | v :: rest => keysCanon v && keysCanonList rest
end

theorem keysCanonKvs_lookup (kvs : List (String × J)) (h : keysCanonKvs kvs = true) (k : String) (c : J)
    (hl : lookup k kvs = some c) : keysCanon c = true := by
  induction kvs with
  | nil => simp [lookup] at hl
  | cons kv rest ih =>
    obtain ⟨k', v⟩ := kv
    simp only [keysCanonKvs, Bool.and_eq_true] at h
    simp only [lookup] at hl
    split at hl
    · cases hl; exact h.1.2
    · exact ih h.2 hl

theorem keysCanonKvs_keys (kvs : List (String × J)) (h : keysCanonKvs kvs = true) :
    ∀ k ∈ kvs.map (·.1), CanonTok k := by
  induction kvs with
  | nil => intro k hk; simp at hk
  | cons kv rest ih =>
    obtain ⟨k', v⟩ := kv
    simp only [keysCanonKvs, Bool.and_eq_true] at h
    intro k hk
    simp only [List.map_cons, List.mem_cons] at hk
    rcases hk with rfl | hk
    · exact h.1.1
    · exact ih h.2 k hk

theorem keysCanonList_get (xs : List J) (h : keysCanonList xs = true) (i : Nat) (c : J) (hx : xs[i]? = some c) :
    keysCanon c = true := by
  induction xs generalizing i with
  | nil => simp at hx
  | cons v rest ih =>
    simp only [keysCanonList, Bool.and_eq_true] at h
    cases i with
    | zero => simp at hx; subst hx; exact h.1
    | succ i => exact ih h.2 i (by simpa using hx)

theorem keysCanon_get (d : J) (h : keysCanon d = true) (p : List String) (j : J)
    (hg : Spec.Pointer.get d p = some j) : keysCanon j = true := by
  induction p generalizing d with
  | nil => simp [Spec.Pointer.get] at hg; subst hg; exact h
  | cons t ts ih =>
    simp only [Spec.Pointer.get] at hg
    cases hs : Spec.Pointer.step d t with
    | none => simp [hs] at hg
    | some c =>
      simp only [hs, Option.bind_some] at hg
      refine ih c ?_ hg
      cases d with
      | obj kvs =>
        simp only [Spec.Pointer.step] at hs
        exact keysCanonKvs_lookup kvs (by simpa [keysCanon] using h) t c hs
      | arr xs =>
        simp only [Spec.Pointer.step] at hs
        cases hn : Spec.Pointer.natOfDigits t.toList with
        | none => simp [hn] at hs
        | some i =>
          simp only [hn, Option.bind_some] at hs
          exact keysCanonList_get xs (by simpa [keysCanon] using h) i c hs
      | null => simp [Spec.Pointer.step] at hs
      | bool b => simp [Spec.Pointer.step] at hs
      | num n => simp [Spec.Pointer.step] at hs
      | str s => simp [Spec.Pointer.step] at hs

end Proofs.MoveBase
