import Verif.Proofs.IndexViews

/-!
  C14: the required media types and security schemes the analyzer reports are the unions over the
  document and its operations.  `analyze f d` is, up to order, `junk d ++ specLog d`
  (`analyze_perm_specLog`): `junk` holds exactly the document-level and operation-level consumes /
  produces / security entries (and the operations), `specLog` holds references, patterns, enums and
  schemas only.
-/

namespace IndexProof
open J Spec.Index Analyzer

/-- entries of the three string sets -/
def isSetEnt : Ent → Bool
  | .consumes _ | .produces _ | .auth _ => true
  | _ => false

theorem refEnt_not_set (kind key : String) (n : J) : ∀ e ∈ refEnt kind key n, isSetEnt e = false := by
  intro e he
  unfold refEnt at he
  split at he
  · simp only [List.mem_singleton] at he; subst he; rfl
  · cases he

theorem patEnum_not_set (cat key : String) (n : J) : ∀ e ∈ patEnum cat key n, isSetEnt e = false := by
  intro e he
  unfold patEnum at he
  rcases List.mem_append.1 he with h | h
  · split at h
    · simp only [List.mem_singleton] at h; subst h; rfl
    · cases h
  · split at h
    · simp only [List.mem_singleton] at h; subst h; rfl
    · cases h

theorem specLog_not_set (d : J) : ∀ e ∈ specLog d, isSetEnt e = false := by
  intro e he
  simp only [specLog, List.mem_append, List.mem_flatMap] at he
  rcases he with (((((((⟨p, _, h⟩ | ⟨p, _, h⟩) | ⟨p, _, h⟩) | ⟨p, _, h⟩) | ⟨p, _, h⟩) | ⟨p, _, h⟩) | ⟨p, _, h⟩) | ⟨p, _, h⟩)
  · simp only [schE, List.mem_cons, List.mem_append] at h
    rcases h with rfl | h | h
    · rfl
    · exact refEnt_not_set _ _ _ e h
    · exact patEnum_not_set _ _ _ e h
  · exact refEnt_not_set _ _ _ e h
  · exact refEnt_not_set _ _ _ e h
  · exact refEnt_not_set _ _ _ e h
  · simp only [itE, List.mem_append] at h
    rcases h with h | h
    · exact refEnt_not_set _ _ _ e h
    · exact patEnum_not_set _ _ _ e h
  · simp only [itE, List.mem_append] at h
    rcases h with h | h
    · exact refEnt_not_set _ _ _ e h
    · exact patEnum_not_set _ _ _ e h
  · exact patEnum_not_set _ _ _ e h
  · exact patEnum_not_set _ _ _ e h

/-- a view that reads only the string-set entries sees exactly what `junk` holds, up to order -/
theorem setView_perm {β} (g : Ent → Option β) (hg : ∀ e, isSetEnt e = false → g e = none) (f : Facts)
    (hm : f.analyzerMethods.Perm (Doc.methods.map fun m => (Str.toUpperAscii m, m)))
    (hd : f.defaultHeaderEnums = true) (d : J) (h : WF' d) :
    ((analyze f d).filterMap g).Perm ((junk d).filterMap g) := by
  have := (analyze_perm_specLog f hm hd d h).filterMap g
  rw [List.filterMap_append] at this
  have hs : (specLog d).filterMap g = [] :=
    List.filterMap_eq_nil_iff.2 fun e he => hg e (specLog_not_set d e he)
  rwa [hs, List.append_nil] at this

def selConsumes : Ent → Option String | .consumes s => some s | _ => none
def selProduces : Ent → Option String | .produces s => some s | _ => none
def selAuth : Ent → Option String | .auth s => some s | _ => none

def authNames (n : J) : List String :=
  (n.getArr "security").flatMap fun req => match req with | .obj kvs => kvs.map (·.1) | _ => []

theorem filterMap_map_some {α β} (l : List α) (c : α → Ent) (g : Ent → Option β) (v : α → β)
    (h : ∀ a, g (c a) = some (v a)) : (l.map c).filterMap g = l.map v := by
  induction l with
  | nil => rfl
  | cons a l ih => simp [h a, ih]

theorem filterMap_map_none {α β} (l : List α) (c : α → Ent) (g : Ent → Option β)
    (h : ∀ a, g (c a) = none) : (l.map c).filterMap g = [] := by
  induction l with
  | nil => rfl
  | cons a l ih => simp [h a, ih]

/-- the security entries logged for a document or an operation -/
def authEnts (n : J) : List Ent :=
  (n.getArr "security").flatMap fun req => match req with | .obj kvs => kvs.map fun kv => Ent.auth kv.1 | _ => []

theorem junk_eq (d : J) : junk d =
    (d.getStrs "consumes").map Ent.consumes ++ (d.getStrs "produces").map Ent.produces ++ authEnts d ++
    (operations d).flatMap opJunk := rfl

theorem opJunk_eq (o : String × String × Pos) : opJunk o =
    (o.2.2.2.getStrs "consumes").map Ent.consumes ++ (o.2.2.2.getStrs "produces").map Ent.produces ++
    authEnts o.2.2.2 ++ [Ent.op o.1 o.2.1 o.2.2.2] := rfl

theorem auth_filterMap {β} (n : J) (g : Ent → Option β) (v : String → β) (h : ∀ s, g (.auth s) = some (v s)) :
    (authEnts n).filterMap g = (authNames n).map v := by
  unfold authEnts authNames
  induction n.getArr "security" with
  | nil => rfl
  | cons req rest ih =>
    simp only [List.flatMap_cons, List.filterMap_append, List.map_append, ih]
    congr 1
    cases req with
    | obj kvs =>
      simp only
      induction kvs with
      | nil => rfl
      | cons kv kvs ih2 => simp [h kv.1, ih2]
    | _ => rfl

theorem auth_filterMap_none {β} (n : J) (g : Ent → Option β) (h : ∀ s, g (.auth s) = none) :
    (authEnts n).filterMap g = [] := by
  unfold authEnts
  induction n.getArr "security" with
  | nil => rfl
  | cons req rest ih =>
    simp only [List.flatMap_cons, List.filterMap_append, ih, List.append_nil]
    cases req with
    | obj kvs =>
      simp only
      induction kvs with
      | nil => rfl
      | cons kv kvs ih2 => simp [h kv.1, ih2]
    | _ => rfl

/-- the consumes entries of `junk`: the document's list, then each operation's -/
theorem junk_consumes (d : J) :
    (junk d).filterMap selConsumes = d.getStrs "consumes" ++ (operations d).flatMap fun o => o.2.2.2.getStrs "consumes" := by
  rw [junk_eq]
  simp only [List.filterMap_append]
  rw [filterMap_map_some _ Ent.consumes selConsumes id (fun _ => rfl),
    filterMap_map_none _ Ent.produces selConsumes (fun _ => rfl),
    auth_filterMap_none d selConsumes (fun _ => rfl)]
  simp only [List.map_id, List.append_nil]
  congr 1
  induction operations d with
  | nil => rfl
  | cons o os ih =>
    simp only [List.flatMap_cons, List.filterMap_append, ih]
    congr 1
    rw [opJunk_eq]
    simp only [List.filterMap_append]
    rw [filterMap_map_some _ Ent.consumes selConsumes id (fun _ => rfl),
      filterMap_map_none _ Ent.produces selConsumes (fun _ => rfl),
      auth_filterMap_none _ selConsumes (fun _ => rfl)]
    simp [selConsumes]

theorem junk_produces (d : J) :
    (junk d).filterMap selProduces = d.getStrs "produces" ++ (operations d).flatMap fun o => o.2.2.2.getStrs "produces" := by
  rw [junk_eq]
  simp only [List.filterMap_append]
  rw [filterMap_map_none _ Ent.consumes selProduces (fun _ => rfl),
    filterMap_map_some _ Ent.produces selProduces id (fun _ => rfl),
    auth_filterMap_none d selProduces (fun _ => rfl)]
  simp only [List.map_id, List.append_nil, List.nil_append]
  congr 1
  induction operations d with
  | nil => rfl
  | cons o os ih =>
    simp only [List.flatMap_cons, List.filterMap_append, ih]
    congr 1
    rw [opJunk_eq]
    simp only [List.filterMap_append]
    rw [filterMap_map_none _ Ent.consumes selProduces (fun _ => rfl),
      filterMap_map_some _ Ent.produces selProduces id (fun _ => rfl),
      auth_filterMap_none _ selProduces (fun _ => rfl)]
    simp [selProduces]

theorem junk_auth (d : J) :
    (junk d).filterMap selAuth = authNames d ++ (operations d).flatMap fun o => authNames o.2.2.2 := by
  rw [junk_eq]
  simp only [List.filterMap_append]
  rw [filterMap_map_none _ Ent.consumes selAuth (fun _ => rfl),
    filterMap_map_none _ Ent.produces selAuth (fun _ => rfl),
    auth_filterMap d selAuth id (fun _ => rfl)]
  simp only [List.map_id, List.nil_append]
  congr 1
  induction operations d with
  | nil => rfl
  | cons o os ih =>
    simp only [List.flatMap_cons, List.filterMap_append, ih]
    congr 1
    rw [opJunk_eq]
    simp only [List.filterMap_append]
    rw [filterMap_map_none _ Ent.consumes selAuth (fun _ => rfl),
      filterMap_map_none _ Ent.produces selAuth (fun _ => rfl),
      auth_filterMap _ selAuth id (fun _ => rfl)]
    simp [selAuth]

end IndexProof
