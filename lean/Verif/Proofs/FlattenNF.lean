import Verif.Proofs.FlattenPipeline

/-!
  C08 on the phase model: on a document in normal form (`Flatten.isNF`, an executable predicate that the
  driver also evaluates on every output of the implementation) every phase of `flattenLocal` does
  nothing, so flattening it again returns it unchanged.
-/

namespace Proofs.FlattenNF
open J Replace Flatten OutcomeM Proofs.FlattenBase Proofs.FlattenPipeline

/-- a step that does nothing on `s` for every element leaves a monadic fold at `s` -/
theorem foldlM_idle {σ α : Type} (f : σ → α → Outcome σ) (s : σ) :
    ∀ (l : List α), (∀ a ∈ l, f s a = .ok s) → l.foldlM f s = .ok s := by
  intro l
  induction l with
  | nil => intro _; rfl
  | cons a l ih =>
    intro h
    simp only [List.foldlM]
    rw [h a List.mem_cons_self]
    exact ih fun b hb => h b (List.mem_cons_of_mem _ hb)

@[simp] theorem ok_bind {α β : Type} (a : α) (f : α → Outcome β) : (Outcome.ok a >>= f) = f a := rfl

theorem bind_of_ok {α β : Type} {x : Outcome α} {a : α} (f : α → Outcome β) (h : x = .ok a) : (x >>= f) = f a := by
  subst h; rfl

theorem reload_eq_self (fc : Facts) (s : St) (h : s.idx = Analyzer.analyze fc s.doc) : reload fc s = s := by
  cases s
  simp only [reload] at h ⊢
  simp_all

theorem syncNewRefs_eq_self (s : St) (h : s.ctx.newRefs = []) : syncNewRefs s = s := by
  obtain ⟨doc, idx, ⟨nrs, res⟩⟩ := s
  simp only at h
  subst h
  rfl

theorem filter_eq_nil_of_all {α : Type} (p : α → Bool) (l : List α) (h : l.all (fun a => !p a) = true) :
    l.filter p = [] := by
  rw [List.filter_eq_nil_iff]
  intro a ha
  have := List.all_eq_true.1 h a ha
  simpa using this

/-! ### each phase on a normal form -/

theorem normalizeRef_nf (fc : Facts) (x : Ext) (o : Opts) (s : St) (h : nfNormalize o s = true) :
    normalizeRef fc x o s = .ok s := by
  unfold normalizeRef
  have hf : (allRefs s.idx).filter (fun kv => Str.hasPrefix (o.basePath ++ "#/definitions") kv.2) = [] :=
    filter_eq_nil_of_all _ _ h
  simp [hf, List.foldlM, Bind.bind, Outcome.bind, Pure.pure]

theorem erase_of_get?_none (d : J) (k : String) (h : d.get? k = none) : d.erase k = d := by
  cases d with
  | obj kvs =>
    simp only [get?] at h
    simp only [J.erase]
    congr 1
    induction kvs with
    | nil => rfl
    | cons kv rest ih =>
      obtain ⟨k', v⟩ := kv
      simp only [lookup] at h
      split at h
      · cases h
      · rename_i hk
        simp only [eraseKv, hk, if_false]
        rw [ih h]
  | _ => rfl

theorem removeUnusedShared_nf (fc : Facts) (s : St) (hi : s.idx = Analyzer.analyze fc s.doc)
    (h : nfShared s.doc = true) : removeUnusedShared fc s = s := by
  simp only [nfShared, Bool.and_eq_true, Option.isNone_iff_eq_none] at h
  unfold removeUnusedShared RemoveUnused.removeShared
  rw [erase_of_get?_none _ _ h.1, erase_of_get?_none _ _ h.2]
  exact reload_eq_self fc s hi

theorem importReferencesLocal_nf (fc : Facts) (s : St) (hi : s.idx = Analyzer.analyze fc s.doc)
    (hc : s.ctx.newRefs = []) (h : nfLocal s = true) : importReferencesLocal fc s = .ok s := by
  unfold importReferencesLocal
  simp only [nfLocal] at h
  simp [h, hc, reload_eq_self fc s hi]

theorem nameInlinedSchemas_nf (fc : Facts) (x : Ext) (o : Opts) (s : St) (ops : List (String × OpRef))
    (hops : opRefsByRef x s.idx = .ok ops) (hi : s.idx = Analyzer.analyze fc s.doc) (hc : s.ctx.newRefs = [])
    (h : nfNaming fc x s = true) : nameInlinedSchemas fc x o s = .ok s := by
  unfold nameInlinedSchemas
  rw [hops, ok_bind]
  dsimp only
  refine Eq.trans (bind_of_ok _ (foldlM_idle _ s _ ?_)) ?_
  · intro key hk
    have h' : (SortRef.depthFirst ((Index.mapOf (Index.schemas s.idx)).map (·.1))).all
        (nameStepIdle fc x s.doc (schemaEntries s.idx) ops) = true := by
      unfold nfNaming at h
      rw [hops] at h
      exact h
    have hidle := List.all_eq_true.1 h' key hk
    unfold nameStepIdle at hidle
    split
    · rfl
    · rename_i e he
      rw [he] at hidle
      dsimp only at hidle ⊢
      split
      · rfl
      · rename_i hcond
        rw [if_neg hcond] at hidle
        split at hidle
        · rename_i fl hfl
          rw [hfl, ok_bind]
          rcases Bool.or_eq_true_iff.1 hidle with hnc | hnames
          · have : Classify.isComplex fl = false := by simpa using hnc
            simp [this]
          · split
            · rename_i hcx
              split at hnames
              · rename_i names hn
                unfold nameSchema
                dsimp only
                rw [hn, ok_bind]
                exact foldlM_idle _ s _ (by
                  intro name hname
                  have := List.all_eq_true.1 hnames name hname
                  simp only [decide_eq_true_eq] at this
                  simp [this])
              · cases hnames
            · rfl
        · cases hidle
  · simp only [Pure.pure]
    rw [reload_eq_self fc s hi, syncNewRefs_eq_self s hc]

theorem depthFirst_nil : SortRef.depthFirst [] = [] := by
  simp [SortRef.depthFirst, SortRef.depthGroupOrder]

theorem namePointersPass_nf (fc : Facts) (x : Ext) (o : Opts) (s : St) (ops : List (String × OpRef))
    (hops : opRefsByRef x s.idx = .ok ops) (hi : s.idx = Analyzer.analyze fc s.doc) (hc : s.ctx.newRefs = [])
    (h : nfPointers x s = true) : namePointersPass fc x o s = .ok (s, false) := by
  unfold namePointersPass
  dsimp only
  refine Eq.trans (bind_of_ok _ (foldlM_idle _ [] _ ?_)) ?_
  · intro kv hk
    have hkv := List.all_eq_true.1 h kv hk
    simp only [Bool.and_eq_true, decide_eq_true_eq] at hkv
    rw [if_pos hkv.1]
    split
    · rename_i hn; rw [hn] at hkv; cases hkv.2
    · rename_i toks ht
      rw [ht] at hkv
      split
      · rfl
      · rename_i hg; simp [hg] at hkv
  · rw [hops, ok_bind]
    simp only [List.map_nil, depthFirst_nil, List.foldlM, Pure.pure, ok_bind]
    rw [reload_eq_self fc s hi, syncNewRefs_eq_self s hc]

theorem namePointers_nf (fc : Facts) (x : Ext) (o : Opts) (s : St) (ops : List (String × OpRef))
    (hops : opRefsByRef x s.idx = .ok ops) (hi : s.idx = Analyzer.analyze fc s.doc) (hc : s.ctx.newRefs = [])
    (h : nfPointers x s = true) : namePointers fc x o s = .ok s := by
  unfold namePointers
  rw [show 8 + (allRefs s.idx).length = (7 + (allRefs s.idx).length) + 1 by omega]
  unfold namePointersLoop
  rw [namePointersPass_nf fc x o s ops hops hi hc h]
  rfl

theorem stripOAIGen_nf (fc : Facts) (x : Ext) (s : St) (hi : s.idx = Analyzer.analyze fc s.doc)
    (hc : s.ctx.newRefs = []) : stripOAIGen fc x s = .ok (s, false) := by
  unfold stripOAIGen stripOrder stripPrepare stripInOrder
  obtain ⟨doc, idx, ⟨nrs, res⟩⟩ := s
  simp only at hc hi
  subst hc
  simp only [List.map_nil, List.mergeSort_nil, List.foldlM, Bind.bind, Outcome.bind, Pure.pure]
  rw [reload_eq_self fc _ hi]

theorem removeUnused_nf (fc : Facts) (x : Ext) (s : St) (hi : s.idx = Analyzer.analyze fc s.doc)
    (h : nfUnused fc x s.doc = true) : Flatten.removeUnused fc x s = .ok s := by
  unfold Flatten.removeUnused
  have hp : (RemoveUnused.singlePass fc { refName := refName x } s.doc).2 = false := by
    simpa [nfUnused] using h
  have h1 := (Proofs.RemoveUnused.singlePass_false fc { refName := refName x } s.doc hp).1
  simp only [RemoveUnused.removeUnused, hp, Bind.bind, Outcome.bind, Pure.pure, h1]
  simp [reload_eq_self fc s hi]

/-- C08 on the model: on a document in normal form, with an empty flatten context, every phase is
    the identity and `flattenLocal` returns the state it started from.  (`hops`: the operations index
    can be computed — its external tables answer; `fuel ≥ 1`: the loop may look once.) -/
theorem flattenLocal_nf (fc : Facts) (x : Ext) (o : Opts) (fuel : Nat) (d : J) (ops : List (String × OpRef))
    (hops : opRefsByRef x (initial fc d).idx = .ok ops)
    (h : isNF fc x o d = true) :
    flattenLocal fc x o (fuel + 1) (initial fc d) = .ok (initial fc d) := by
  have hi : (initial fc d).idx = Analyzer.analyze fc (initial fc d).doc := rfl
  have hc : (initial fc d).ctx.newRefs = [] := rfl
  have hd : (initial fc d).doc = d := rfl
  simp only [isNF, Bool.and_eq_true, Bool.or_eq_true, Bool.not_eq_true'] at h
  obtain ⟨⟨⟨⟨hn, hl⟩, hnm⟩, hp⟩, hr⟩ := h
  unfold flattenLocal
  rw [normalizeRef_nf fc x o _ hn]
  simp only [Bind.bind, Outcome.bind]
  have hs2 : (if o.removeUnused = true then removeUnusedShared fc (initial fc d) else initial fc d) = initial fc d := by
    split
    · rename_i hru
      rcases hr with hr | hr
      · rw [hru] at hr; cases hr
      · exact removeUnusedShared_nf fc _ hi (by rw [hd]; exact hr.1)
    · rfl
  rw [hs2, importReferencesLocal_nf fc _ hi hc hl]
  simp only []
  have hs4 : (if (!o.minimal && !o.expand) = true then nameInlinedSchemas fc x o (initial fc d) else pure (initial fc d))
      = .ok (initial fc d) := by
    split
    · rename_i hfull
      simp only [Bool.and_eq_true, Bool.not_eq_true'] at hfull
      rcases hnm with (hm | he) | hnn
      · rw [hfull.1] at hm; cases hm
      · rw [hfull.2] at he; cases he
      · exact nameInlinedSchemas_nf fc x o _ ops hops hi hc hnn
    · rfl
  rw [hs4]
  simp only []
  have hs5 : stripPointersAndOAIGen fc x o (fuel + 1) (initial fc d) = .ok (initial fc d) := by
    unfold stripPointersAndOAIGen
    rw [namePointers_nf fc x o _ ops hops hi hc hp]
    simp only [Bind.bind, Outcome.bind]
    rw [stripOAIGen_nf fc x _ hi hc]
    simp [stripLoop]
  rw [hs5]
  simp only []
  split
  · rename_i hru
    rcases hr with hr | hr
    · rw [hru] at hr; cases hr
    · exact removeUnused_nf fc x _ hi (by rw [hd]; exact hr.2)
  · rfl

end Proofs.FlattenNF
