import Verif.Proofs.Bisim
import Verif.Proofs.Move

/-!
  The second kind of rewrite in `InlineSchemaNamer.Name` (and the `TopLevel` branch of `namePointers`): a `$ref` is
  *re-targeted* to something its chain of `$ref`s already leads to (`UpdateRef(k, #/definitions/newName)` where the old
  value designated, through anonymous pointers, the place that now holds `$ref: #/definitions/newName`).

  Stated on bundles: if two bundles have the same `$ref` tables and the same nodes (same `$ref` string, same keys /
  length / scalar) everywhere except at one position `kp`, where the first holds a `$ref` to `q0` and the second a `$ref`
  to a position `q'` that lies on the chain of `$ref`s starting at `q0`, then every position denotes the same
  (possibly infinite) tree in both.
-/

namespace Proofs.Retarget
open J Spec.Meaning _root_.Cert Proofs.Bisim Proofs.Move

/-- `q` lies on the chain of `$ref`s that starts at `p` -/
inductive Reaches (b : Bundle) : Pos → Pos → Prop
  | refl (q : Pos) : Reaches b q q
  | step {p t q : Pos} {j : J} : b.node p = some j → Doc.refStr j ≠ "" → b.target p.1 (Doc.refStr j) = some t →
      Reaches b t q → Reaches b p q

theorem chase_mono (b : Bundle) : ∀ (h : Nat) (p e : Pos), chase b h p = some e → chase b (h + 1) p = some e := by
  intro h
  induction h with
  | zero => intro p e hc; simp [chase] at hc
  | succ h ih =>
    intro p e hc
    rw [Move.Setting.chase_succ] at hc ⊢
    cases hn : b.node p with
    | none => simp [hn] at hc
    | some j =>
      simp only [hn] at hc ⊢
      by_cases hr : Doc.refStr j = ""
      · simpa [hr] using hc
      · simp only [ne_eq, hr, not_false_eq_true, if_true] at hc ⊢
        cases ht : b.target p.1 (Doc.refStr j) with
        | none => simp [ht] at hc
        | some tq => simp only [ht] at hc ⊢; exact ih tq e hc

/-- a chase that starts earlier on the chain ends where the chase from a later position ends -/
theorem reaches_chase (b : Bundle) {p q : Pos} (hr : Reaches b p q) : ∀ (h : Nat) (e : Pos),
    chase b h p = some e → chase b h q = some e := by
  induction hr with
  | refl q => intro h e hc; exact hc
  | step hn hne ht _ ih =>
    intro h e hc
    cases h with
    | zero => simp [chase] at hc
    | succ h =>
      rw [Move.Setting.chase_succ] at hc
      simp only [hn, ne_eq, hne, not_false_eq_true, if_true, ht] at hc
      exact chase_mono b h _ e (ih h e hc)

theorem reaches_chase_back (b : Bundle) {p q : Pos} (hr : Reaches b p q) : ∀ (h : Nat) (e : Pos),
    chase b h q = some e → ∃ m, chase b (h + m) p = some e := by
  induction hr with
  | refl q => intro h e hc; exact ⟨0, hc⟩
  | step hn hne ht _ ih =>
    intro h e hc
    obtain ⟨m, hm⟩ := ih h e hc
    refine ⟨m + 1, ?_⟩
    show chase b (h + m + 1) _ = some e
    rw [Move.Setting.chase_succ]
    simp only [hn, ne_eq, hne, not_false_eq_true, if_true, ht]
    exact hm

/-- local agreement of two nodes as far as the unfolding looks at them -/
def ShapeEq (a c : J) : Prop :=
  match a, c with
  | .obj k1, .obj k2 => (visible k1).map (·.1) = (visible k2).map (·.1)
  | .arr x1, .arr x2 => x1.length = x2.length
  | a, c => isScalar a = true ∧ isScalar c = true ∧ a = c

/-- the two bundles of a re-targeting -/
structure RSetting where
  b1 : Bundle
  b2 : Bundle
  kp : Pos
  q0 : Pos
  q' : Pos
  Good : Pos → Prop
  a1 : J
  a2 : J
  /-- same `$ref` tables -/
  htarget : ∀ doc s, b2.target doc s = b1.target doc s
  /-- same nodes elsewhere -/
  hnodes : ∀ p, Good p → p ≠ kp →
    (b1.node p = none ∧ b2.node p = none) ∨
    (∃ a c, b1.node p = some a ∧ b2.node p = some c ∧ Doc.refStr c = Doc.refStr a ∧ ShapeEq a c)
  hk1 : b1.node kp = some a1
  hk2 : b2.node kp = some a2
  hv1 : Doc.refStr a1 ≠ ""
  hv2 : Doc.refStr a2 ≠ ""
  ht1 : b1.target kp.1 (Doc.refStr a1) = some q0
  ht2 : b1.target kp.1 (Doc.refStr a2) = some q'
  hreach : Reaches b1 q0 q'
  hgoodT : ∀ doc s q, b1.target doc s = some q → Good q
  /-- the children of a node the unfolding descends into are good positions -/
  hgoodC : ∀ e a, Good e → e ≠ kp → b1.node e = some a →
    (∀ kvs, a = .obj kvs → ∀ key ∈ (visible kvs).map (·.1), Good (child e key)) ∧
    (∀ xs, a = .arr xs → ∀ i : Nat, Good (child e (toString i)))

namespace RSetting
variable (S : RSetting)

theorem chase_fwd : ∀ (h : Nat) (p e : Pos), S.Good p → chase S.b1 h p = some e → chase S.b2 h p = some e := by
  intro h
  induction h with
  | zero => intro p e _ hc; simp [chase] at hc
  | succ h ih =>
    intro p e hg hc
    by_cases hp : p = S.kp
    · subst hp
      rw [Move.Setting.chase_succ] at hc ⊢
      simp only [S.hk1, ne_eq, S.hv1, not_false_eq_true, if_true, S.ht1] at hc
      simp only [S.hk2, ne_eq, S.hv2, not_false_eq_true, if_true, S.htarget, S.ht2]
      exact ih _ e (S.hgoodT _ _ _ S.ht2) (reaches_chase S.b1 S.hreach h e hc)
    · rcases S.hnodes p hg hp with ⟨h1, _⟩ | ⟨a, c, h1, h2, hr, _⟩
      · rw [Move.Setting.chase_succ] at hc; simp [h1] at hc
      · rw [Move.Setting.chase_succ] at hc ⊢
        simp only [h1] at hc
        simp only [h2, hr]
        by_cases hre : Doc.refStr a = ""
        · simpa [hre] using hc
        · simp only [ne_eq, hre, not_false_eq_true, if_true] at hc ⊢
          rw [S.htarget]
          cases ht : S.b1.target p.1 (Doc.refStr a) with
          | none => simp [ht] at hc
          | some tq => simp only [ht] at hc ⊢; exact ih tq e (S.hgoodT _ _ _ ht) hc

theorem chase_bwd : ∀ (h : Nat) (p e : Pos), S.Good p → chase S.b2 h p = some e → ∃ h', chase S.b1 h' p = some e := by
  intro h
  induction h with
  | zero => intro p e _ hc; simp [chase] at hc
  | succ h ih =>
    intro p e hg hc
    by_cases hp : p = S.kp
    · subst hp
      rw [Move.Setting.chase_succ] at hc
      simp only [S.hk2, ne_eq, S.hv2, not_false_eq_true, if_true, S.htarget, S.ht2] at hc
      obtain ⟨h', hh'⟩ := ih _ e (S.hgoodT _ _ _ S.ht2) hc
      obtain ⟨m, hm⟩ := reaches_chase_back S.b1 S.hreach h' e hh'
      refine ⟨h' + m + 1, ?_⟩
      rw [Move.Setting.chase_succ]
      simp only [S.hk1, ne_eq, S.hv1, not_false_eq_true, if_true, S.ht1]
      exact hm
    · rcases S.hnodes p hg hp with ⟨_, h2⟩ | ⟨a, c, h1, h2, hr, _⟩
      · rw [Move.Setting.chase_succ] at hc; simp [h2] at hc
      · rw [Move.Setting.chase_succ] at hc
        simp only [h2, hr] at hc
        by_cases hre : Doc.refStr a = ""
        · refine ⟨1, ?_⟩
          rw [Move.Setting.chase_succ]
          simpa [h1, hre] using hc
        · simp only [ne_eq, hre, not_false_eq_true, if_true, S.htarget] at hc
          cases ht : S.b1.target p.1 (Doc.refStr a) with
          | none => simp [ht] at hc
          | some tq =>
            simp only [ht] at hc
            obtain ⟨h', hh'⟩ := ih tq e (S.hgoodT _ _ _ ht) hc
            refine ⟨h' + 1, ?_⟩
            rw [Move.Setting.chase_succ]
            simp only [h1, ne_eq, hre, not_false_eq_true, if_true, ht]
            exact hh'

/-- the hop bound is large enough for every chain of the first bundle that ends at all -/
def Adequate (b : Bundle) (hops : Nat) : Prop := ∀ h p e, chase b h p = some e → chase b hops p = some e

/-- … for the chains that start at the positions `Q` -/
def AdequateOn (Q : Pos → Prop) (b : Bundle) (hops : Nat) : Prop :=
  ∀ h p e, Q p → chase b h p = some e → chase b hops p = some e

theorem Adequate.on {b : Bundle} {hops : Nat} (h : Adequate b hops) (Q : Pos → Prop) : AdequateOn Q b hops :=
  fun h' p e _ hc => h h' p e hc

theorem chase_eq_on (hops : Nat) (had : AdequateOn S.Good S.b1 hops) (p : Pos) (hg : S.Good p) :
    chase S.b2 hops p = chase S.b1 hops p := by
  cases hc : chase S.b1 hops p with
  | some e => exact S.chase_fwd hops p e hg hc
  | none =>
    cases hc2 : chase S.b2 hops p with
    | none => rfl
    | some e =>
      obtain ⟨h', hh'⟩ := S.chase_bwd hops p e hg hc2
      rw [had h' p e hg hh'] at hc
      cases hc

theorem chase_eq (hops : Nat) (had : Adequate S.b1 hops) (p : Pos) (hg : S.Good p) :
    chase S.b2 hops p = chase S.b1 hops p := S.chase_eq_on hops (had.on _) p hg

/-- the re-targeted bundle needs no more hops than the original one: adequacy of the hop bound (on the good positions)
    survives the step, so that steps can be chained -/
theorem adequateOn_preserved (hops : Nat) (had : AdequateOn S.Good S.b1 hops) : AdequateOn S.Good S.b2 hops := by
  intro h p e hg hc
  obtain ⟨h', hh'⟩ := S.chase_bwd h p e hg hc
  exact S.chase_fwd hops p e hg (had h' p e hg hh')

theorem chase_good : ∀ (h : Nat) (p e : Pos), S.Good p → chase S.b1 h p = some e → S.Good e := by
  intro h
  induction h with
  | zero => intro p e _ hc; simp [chase] at hc
  | succ h ih =>
    intro p e hg hc
    rw [Move.Setting.chase_succ] at hc
    cases hn : S.b1.node p with
    | none => simp [hn] at hc
    | some j =>
      simp only [hn] at hc
      by_cases hr : Doc.refStr j = ""
      · simp only [hr, ne_eq, not_true_eq_false, if_false, Option.some.injEq] at hc
        exact hc ▸ hg
      · simp only [ne_eq, hr, not_false_eq_true, if_true] at hc
        cases ht : S.b1.target p.1 (Doc.refStr j) with
        | none => simp [ht] at hc
        | some tq => simp only [ht] at hc; exact ih tq e (S.hgoodT _ _ _ ht) hc

/-- re-targeting a `$ref` along its own chain preserves the meaning of every position -/
theorem retarget_preserves_on (hops : Nat) (had : AdequateOn S.Good S.b1 hops) :
    ∀ n p, S.Good p → unfold S.b1 hops n p = unfold S.b2 hops n p := by
  intro n p hg
  refine bisim_sound S.b1 S.b2 hops hops (fun p q => p = q ∧ S.Good p) ?_ n p p ⟨rfl, hg⟩
  rintro p q ⟨rfl, hgp⟩
  unfold StepOK
  rw [S.chase_eq_on hops had p hgp]
  cases hc : chase S.b1 hops p with
  | none => trivial
  | some e =>
    simp only
    obtain ⟨j, hj, hrj⟩ := Move.Setting.chase_some_node S.b1 hops p e hc
    have hge : S.Good e := S.chase_good hops p e hgp hc
    have hne : e ≠ S.kp := by
      intro he; subst he
      rw [S.hk1] at hj; cases hj
      exact S.hv1 hrj
    rcases S.hnodes e hge hne with ⟨h1, _⟩ | ⟨a, c, h1, h2, _, hs⟩
    · rw [h1] at hj; cases hj
    · simp only [h1, h2]
      unfold NodesOK
      unfold ShapeEq at hs
      split
      · rename_i k1 k2
        exact ⟨hs, fun k hk => ⟨rfl, (S.hgoodC e _ hge hne h1).1 _ rfl k hk⟩⟩
      · rename_i x1 x2
        exact ⟨hs, fun i _ => ⟨rfl, (S.hgoodC e _ hge hne h1).2 _ rfl i⟩⟩
      · rename_i hno hna
        split at hs
        · exact (hno _ _ rfl rfl).elim
        · exact (hna _ _ rfl rfl).elim
        · exact hs

theorem retarget_preserves (hops : Nat) (had : Adequate S.b1 hops) :
    ∀ n p, S.Good p → unfold S.b1 hops n p = unfold S.b2 hops n p :=
  S.retarget_preserves_on hops (had.on _)

end RSetting
end Proofs.Retarget
