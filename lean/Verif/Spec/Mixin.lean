import Verif.Model.Doc

/-
  What C17/C18 say, as the simplest definitions over the list `docs = primary :: mixins`:
  first-wins lookup for keyed sections, order-preserving de-duplicated union for lists,
  first-non-empty for scalars, and the number of key collisions.
-/

namespace Spec.Mixin
open J

def isExtKey (k : String) : Bool := Str.hasPrefix "x-" (Str.toLowerAscii k)

/-- the entries of a keyed section of one document (for `paths`: only the path items) -/
def sectionOf (sect : String) (d : J) : List (String × J) :=
  if sect = "paths" then Doc.pathItems d else d.getObj sect

def keyedSections : List String := ["paths", "definitions", "parameters", "responses", "securityDefinitions"]

/-- the value a key must have after the merge: that of the first document that has it -/
def firstWins (docs : List J) (sect k : String) : Option J :=
  docs.findSome? fun d => lookup k (sectionOf sect d)

/-- collisions among per-document key lists: a key of document i that some earlier document has -/
def collisions : List (List String) → Nat
  | [] => 0
  | ks :: rest => collisionsFrom ks rest
where
  collisionsFrom (seen : List String) : List (List String) → Nat
    | [] => 0
    | ks :: rest => (ks.filter seen.contains).length + collisionsFrom (seen ++ ks) rest

/-- order-preserving de-duplicated union starting from the primary's list -/
def unionNew (same : J → J → Bool) (start : List J) (added : List J) : List J :=
  added.foldl (fun acc v => if acc.any (same v) then acc else acc ++ [v]) start

def sameTag (a b : J) : Bool := a.getStr "name" = b.getStr "name"

def expectedList (k : String) (same : J → J → Bool) (docs : List J) : List J :=
  match docs with
  | [] => []
  | p :: ms => unionNew same (p.getArr k) (ms.flatMap (·.getArr k))

/-- duplicates reported for a list field = elements offered by mixins that were not appended -/
def listCollisions (k : String) (same : J → J → Bool) (docs : List J) : Nat :=
  match docs with
  | [] => 0
  | p :: ms => (ms.flatMap (·.getArr k)).length - ((expectedList k same docs).length - (p.getArr k).length)

def extKeysOf (o : Option J) : List String :=
  match o with
  | some (.obj kvs) => (kvs.map (·.1)).filter isExtKey
  | _ => []

def info (d : J) : Option J := d.get? "info"
def sub (k : String) (o : Option J) : Option J := o.bind (·.get? k)

/-- the number of entries the returned list must have -/
def expectedWarnings (docs : List J) : Nat :=
  (keyedSections.map fun s => collisions (docs.map fun d => (sectionOf s d).map (·.1))).sum
  + listCollisions "tags" sameTag docs
  + listCollisions "security" (· == ·) docs
  + collisions (docs.map fun d => extKeysOf (some d))
  + collisions (docs.map fun d => extKeysOf (info d))
  + collisions (docs.map fun d => extKeysOf (sub "contact" (info d)))
  + collisions (docs.map fun d => extKeysOf (sub "license" (info d)))

/-- first non-empty string along a path of object keys -/
def strAt (path : List String) (k : String) (d : J) : String :=
  match path.foldl (fun (o : Option J) key => o.bind (·.get? key)) (some d) with
  | some o => o.getStr k
  | none => ""

def firstNonEmpty (path : List String) (k : String) (docs : List J) : String :=
  (docs.map (strAt path k)).find? (· ≠ "") |>.getD ""

def scalarFields : List (List String × String) :=
  [([], "host"), ([], "basePath"),
   (["info"], "description"), (["info"], "title"), (["info"], "termsOfService"), (["info"], "version"),
   (["info", "contact"], "name"), (["info", "contact"], "url"), (["info", "contact"], "email"),
   (["info", "license"], "name"), (["info", "license"], "url"),
   (["externalDocs"], "description"), (["externalDocs"], "url")]

/-- non-empty operation ids of a document, over all seven methods -/
def opIds (d : J) : List String :=
  ((Doc.pathItems d).flatMap fun kv => Doc.methods.filterMap fun m => (kv.2.get? m).map (·.getStr "operationId")).filter (· ≠ "")

def countNoId (d : J) : Nat :=
  ((Doc.pathItems d).flatMap fun kv => Doc.methods.filterMap fun m => (kv.2.get? m).map (·.getStr "operationId")).filter (· = "") |>.length

/-- a path item with the operation ids removed (ids may be renamed by the merge, see C18) -/
def stripOpIds (pi : J) : J :=
  mapObj (sel Doc.isMethodKey fun op => op.erase "operationId") pi

def stripIf (sect : String) (o : Option J) : Option J :=
  if sect = "paths" then o.map stripOpIds else o

/-- the clauses of C17 that a result violates -/
def failedClauses (docs : List J) (result : J) (warnCount : Nat) : List String :=
  let keyed := keyedSections.flatMap fun s =>
    let keys := docs.flatMap fun d => (sectionOf s d).map (·.1)
    (if keys.all fun k => stripIf s (lookup k (sectionOf s result)) == stripIf s (firstWins docs s k) then [] else ["keyed:first-wins:" ++ s]) ++
    (if (sectionOf s result).all fun kv => keys.contains kv.1 then [] else ["keyed:invented:" ++ s])
  let lists :=
    (["consumes", "produces", "schemes", "security"].flatMap fun k =>
      if J.arr (result.getArr k) == J.arr (expectedList k (· == ·) docs) then [] else ["list:" ++ k]) ++
    (if J.arr (result.getArr "tags") == J.arr (expectedList "tags" sameTag docs) then [] else ["list:tags"])
  let scalars := scalarFields.flatMap fun pk =>
    if strAt pk.1 pk.2 result = firstNonEmpty pk.1 pk.2 docs then [] else ["scalar:" ++ String.intercalate "." (pk.1 ++ [pk.2])]
  let warns := if warnCount = expectedWarnings docs then [] else ["warnings:count"]
  keyed ++ lists ++ scalars ++ warns

/-- hypotheses of C18 on the inputs -/
def uniqueIds (d : J) : Bool := (opIds d).Nodup

def mixinSuffixOf (x y : String) : Bool :=
  -- y = x ++ "Mixin" ++ digits
  let xs := x.toList; let ys := y.toList
  xs.isPrefixOf ys &&
    (let rest := ys.drop xs.length
     "Mixin".toList.isPrefixOf rest && (rest.drop 5) ≠ [] && (rest.drop 5).all Doc.isDigit)

def noSuffixClash (docs : List J) : Bool :=
  let ids := docs.flatMap opIds
  ids.all fun y => ids.all fun x => !mixinSuffixOf x y

/-- the operation ids that end up in the merged document before any renaming: those of the path items
    that win (a path item of a mixin that is skipped because the path already exists contributes none) -/
def mergedIds (docs : List J) : List String :=
  let paths := (docs.flatMap fun d => (Doc.pathItems d).map (·.1)).eraseDups
  (paths.filterMap fun p => firstWins docs "paths" p).flatMap fun pi =>
    (Doc.methods.filterMap fun m => (pi.get? m).map (·.getStr "operationId")).filter (· ≠ "")

/-- the clauses of C18 that a result violates (given the hypotheses hold on `docs`) -/
def failedIdClauses (docs : List J) (result : J) : List String :=
  (if (opIds result).Nodup then [] else ["ids:duplicate"]) ++
  -- operations without id are left without one: the merged paths come from distinct documents, so counts add up
  (if countNoId result ≤ (docs.map countNoId).sum ∧
      -- every id-less operation of an added path is still id-less: checked per path below
      (docs.all fun d => (Doc.pathItems d).all fun kv =>
        match lookup kv.1 (Doc.pathItems result), firstWins docs "paths" kv.1 with
        | some rpi, some fpi =>
          Doc.methods.all fun m =>
            match fpi.get? m, rpi.get? m with
            | some fo, some ro =>
              let fid := fo.getStr "operationId"; let rid := ro.getStr "operationId"
              if fid = "" then rid = ""
              else rid = fid || (mixinSuffixOf fid rid && (mergedIds docs).count fid > 1)
            | none, none => true
            | _, _ => false
        | _, _ => true)
    then [] else ["ids:changed-without-collision-or-invented"])

end Spec.Mixin
