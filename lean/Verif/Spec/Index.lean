import Verif.Model.Doc

/-
  What C11–C14 say about the analyzer's indexes, written as one generic traversal in *JSON-pointer
  token space* (no string joining, no path cleaning): every place of a Swagger 2.0 document that can
  hold a schema, a parameter, a response, a header or a simple-schema items object, with the token
  path of its holder.  The expected indexes are comprehensions over these positions; a key is the
  RFC 6901 rendering of the token path.
-/

namespace Spec.Index
open J

abbrev Pos := List String × J

/-- RFC 6901: "/" ++ escaped token, concatenated -/
def ptr (toks : List String) : String := String.join (toks.map fun t => "/" ++ Str.esc t)

def key (toks : List String) : String := "#" ++ ptr toks

def mapKeywords : List String := ["definitions", "properties", "patternProperties"]
def arrKeywords : List String := ["allOf", "anyOf", "oneOf"]
def oneKeywords : List String := ["not", "additionalProperties", "additionalItems"]

mutual
  /-- every schema at or below a schema position -/
  def schemasAt (toks : List String) : J → List Pos
    | .obj kvs => (toks, .obj kvs) :: kids toks kvs
    | _ => []
  def kids (toks : List String) : List (String × J) → List Pos
    | [] => []
    | (k, v) :: rest =>
      (if mapKeywords.contains k then
         (match v with
          | .obj m => mapKids (toks ++ [k]) m
          | _ => [])
       else if arrKeywords.contains k then
         (match v with
          | .arr xs => arrKids (toks ++ [k]) 0 xs
          | _ => [])
       else if oneKeywords.contains k then schemasAt (toks ++ [k]) v
       else if k = "items" then
         (match v with
          | .arr xs => arrKids (toks ++ ["items"]) 0 xs
          | _ => []) ++ schemasAt (toks ++ ["items"]) v
       else []) ++ kids toks rest
  def mapKids (toks : List String) : List (String × J) → List Pos
    | [] => []
    | (k, v) :: rest => schemasAt (toks ++ [k]) v ++ mapKids toks rest
  def arrKids (toks : List String) (i : Nat) : List J → List Pos
    | [] => []
    | v :: rest => schemasAt (toks ++ [toString i]) v ++ arrKids toks (i + 1) rest
end

mutual
  /-- the chain of nested simple-schema items below a holder: holder/items, holder/items/items, … -/
  def itemsAt (toks : List String) : J → List Pos
    | .obj kvs => (toks, .obj kvs) :: itemsKids toks kvs
    | _ => []
  def itemsKids (toks : List String) : List (String × J) → List Pos
    | [] => []
    | (k, v) :: rest => (if k = "items" then itemsAt (toks ++ ["items"]) v else []) ++ itemsKids toks rest
end

def itemsOf (holder : Pos) : List Pos :=
  match holder.2.get? "items" with
  | some it => itemsAt (holder.1 ++ ["items"]) it
  | none => []

def indexed {α} (xs : List α) : List (Nat × α) := xs.zipIdx.map fun p => (p.2, p.1)

/-- operations of the document: (METHOD, path, tokens, node), all seven methods -/
def operations (d : J) : List (String × String × Pos) :=
  (Doc.pathItems d).flatMap fun kv =>
    Doc.methods.filterMap fun m =>
      (kv.2.get? m).map fun op => (Str.toUpperAscii m, kv.1, (["paths", kv.1, m], op))

def paramsOf (holder : Pos) : List Pos :=
  (indexed (holder.2.getArr "parameters")).map fun ip => (holder.1 ++ ["parameters", toString ip.1], ip.2)

/-- parameters that can be `$ref`s: path-level and operation-level lists -/
def listedParams (d : J) : List Pos :=
  ((Doc.pathItems d).flatMap fun kv => paramsOf (["paths", kv.1], kv.2)) ++
  ((operations d).flatMap fun o => paramsOf o.2.2)

def sharedParams (d : J) : List Pos := (d.getObj "parameters").map fun kv => (["parameters", kv.1], kv.2)

def isResponseKey (k : String) : Bool := k = "default" || Doc.isCodeKey k

/-- responses of operations (can be `$ref`s) -/
def opResponses (d : J) : List Pos :=
  (operations d).flatMap fun o =>
    ((o.2.2.2.getObj "responses").filter fun kv => isResponseKey kv.1).map fun kv =>
      (o.2.2.1 ++ ["responses", kv.1], kv.2)

def sharedResponses (d : J) : List Pos := (d.getObj "responses").map fun kv => (["responses", kv.1], kv.2)

def headersOf (resp : Pos) : List Pos :=
  (resp.2.getObj "headers").map fun kv => (resp.1 ++ ["headers", kv.1], kv.2)

def headers (d : J) : List Pos := (opResponses d ++ sharedResponses d).flatMap headersOf

/-- the schema of a holder (body parameter, response) -/
def schemaOf (holder : Pos) : List Pos :=
  match holder.2.get? "schema" with
  | some s => schemasAt (holder.1 ++ ["schema"]) s
  | none => []

/-- every schema of the document, at any depth -/
def allSchemas (d : J) : List Pos :=
  (((listedParams d ++ sharedParams d).filter fun p => p.2.getStr "in" = "body").flatMap schemaOf) ++
  ((opResponses d ++ sharedResponses d).flatMap schemaOf) ++
  ((d.getObj "definitions").flatMap fun kv => schemasAt ["definitions", kv.1] kv.2)

def paramItems (d : J) : List Pos := (listedParams d ++ sharedParams d).flatMap itemsOf
def headerItems (d : J) : List Pos := (headers d).flatMap itemsOf

/-- (key, $ref) for the positions that carry a `$ref` -/
def refsOf (ps : List Pos) : List (String × J) :=
  ps.filterMap fun p => if Doc.refStr p.2 ≠ "" then some (key p.1, .str (Doc.refStr p.2)) else none

def patternsOf (ps : List Pos) : List (String × J) :=
  ps.filterMap fun p => if p.2.getStr "pattern" ≠ "" then some (key p.1, .str (p.2.getStr "pattern")) else none

def enumsOf (ps : List Pos) : List (String × J) :=
  ps.filterMap fun p => match p.2.get? "enum" with
    | some (.arr (v :: vs)) => some (key p.1, .arr (v :: vs))
    | _ => none

def pathItemPositions (d : J) : List Pos := (Doc.pathItems d).map fun kv => (["paths", kv.1], kv.2)

def hasAllOf (n : J) : Bool := match n.get? "allOf" with | some (.arr (_ :: _)) => true | _ => false

def lastTok (toks : List String) : String := toks.getLast?.getD ""

def isTopLevel (toks : List String) : Bool := match toks with | ["definitions", _] => true | _ => false

def mapOf (xs : List (String × J)) : List (String × J) := xs.foldl (fun acc kv => setKv kv.1 kv.2 acc) []

def secNames (j : J) : List String :=
  (j.getArr "security").flatMap fun req => match req with | .obj kvs => kvs.map (·.1) | _ => []

/-- the reference index by kind: the positions that may carry a `$ref` of that kind -/
def refKinds (d : J) : List (String × List Pos) := [
  ("schema", allSchemas d), ("response", opResponses d), ("parameter", listedParams d),
  ("pathItem", pathItemPositions d), ("items:header", headerItems d), ("items:parameter", paramItems d)]

/-- the pattern / enum indexes by category: the owners of that category -/
def patCats (d : J) : List (String × List Pos) := [
  ("parameter", listedParams d ++ sharedParams d), ("header", headers d),
  ("items", paramItems d ++ headerItems d), ("schema", allSchemas d)]

def schemaEntry (p : Pos) : String × J :=
  (key p.1, .obj [("name", .str (lastTok p.1)), ("top", .bool (isTopLevel p.1)), ("allOf", .bool (hasAllOf p.2)),
                  ("ref", .str (Doc.refStr p.2))])

/-- the expected indexes, in the JSON shape of `Index.toJson` -/
def expected (d : J) : J :=
  let refKinds := refKinds d
  let patCats := patCats d
  let ops := operations d
  .obj [
    ("refs", .obj (refKinds.map fun kp => (kp.1, .obj (mapOf (refsOf kp.2))))),
    ("itemsRefs", .obj (mapOf (refsOf (headerItems d ++ paramItems d)))),
    ("allRefs", .obj (mapOf (refKinds.flatMap fun kp => refsOf kp.2))),
    ("patterns", .obj (patCats.map fun cp => (cp.1, .obj (mapOf (patternsOf cp.2))))),
    ("allPatterns", .obj (mapOf (patCats.flatMap fun cp => patternsOf cp.2))),
    ("enums", .obj (patCats.map fun cp => (cp.1, .obj (mapOf (enumsOf cp.2))))),
    ("allEnums", .obj (mapOf (patCats.flatMap fun cp => enumsOf cp.2))),
    ("schemas", .obj (mapOf ((allSchemas d).map schemaEntry))),
    ("ops", .obj (((ops.map (·.1)).eraseDups).map fun m =>
      (m, .obj (mapOf ((ops.filter fun o => o.1 = m).map fun o => (o.2.1, .str (o.2.2.2.getStr "operationId"))))))),
    ("consumes", mkStrs ((d.getStrs "consumes" ++ ops.flatMap fun o => o.2.2.2.getStrs "consumes").eraseDups)),
    ("produces", mkStrs ((d.getStrs "produces" ++ ops.flatMap fun o => o.2.2.2.getStrs "produces").eraseDups)),
    ("auth", mkStrs ((secNames d ++ ops.flatMap fun o => secNames o.2.2.2).eraseDups))]

end Spec.Index
