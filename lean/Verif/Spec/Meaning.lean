import Verif.Model.Doc
import Verif.Spec.Pointer

/-
  The meaning of a bundle of JSON documents: the (possibly infinite) tree obtained by following every
  `$ref`.  A position is (document id, JSON-pointer tokens); a node that carries a `$ref` denotes
  its target (siblings are ignored); `unfold n` is the depth-n approximation of the tree below a
  position; two positions mean the same when all their approximations are equal (bisimulation).
  The `x-go-gen-location` marker Flatten puts on the definitions it creates is not part of the meaning.
-/

namespace Spec.Meaning
open J

abbrev Pos := String × List String

structure Bundle where
  /-- document id ("" = the root document) → document -/
  docs : List (String × J)
  /-- external function: per document, `$ref` string → (document id, pointer tokens) it designates
      (`jsonreference` + `net/url` + relative path resolution; supplied by the real libraries) -/
  refs : List (String × List (String × Pos))

def Bundle.node (b : Bundle) (p : Pos) : Option J :=
  match b.docs.lookup p.1 with
  | some d => Spec.Pointer.get d p.2
  | none => none

def Bundle.target (b : Bundle) (doc ref : String) : Option Pos :=
  match b.refs.lookup doc with
  | some t => t.lookup ref
  | none => none

/-- follow `$ref`s from a position to the first node that is not a `$ref`; `none` when a `$ref`
    dangles or the chain does not end within `hops` steps (a pure `$ref` cycle) -/
def chase (b : Bundle) : Nat → Pos → Option Pos
  | 0, _ => none
  | h + 1, p =>
    match b.node p with
    | none => none
    | some j =>
      if Doc.refStr j ≠ "" then
        match b.target p.1 (Doc.refStr j) with
        | some q => chase b h q
        | none => none
      else some p

def marker : String := "x-go-gen-location"

/-- the entries of an object that are part of its meaning -/
def visible (kvs : List (String × J)) : List (String × J) := kvs.filter fun kv => kv.1 ≠ marker

inductive Tree where
  | cut                                    -- depth exhausted
  | bot                                    -- dangling `$ref` / pure `$ref` cycle / no such position
  | leaf (v : J)                           -- a scalar
  | obj (kids : List (String × Tree))
  | arr (kids : List Tree)

def child (p : Pos) (k : String) : Pos := (p.1, p.2 ++ [k])

/-- depth-n unfolding of the tree below a position -/
def unfold (b : Bundle) (hops : Nat) : Nat → Pos → Tree
  | 0, _ => .cut
  | n + 1, p =>
    match chase b hops p with
    | none => .bot
    | some q =>
      match b.node q with
      | none => .bot
      | some (.obj kvs) => .obj ((visible kvs).map fun kv => (kv.1, unfold b hops n (child q kv.1)))
      | some (.arr xs) => .arr ((List.range xs.length).map fun i => unfold b hops n (child q (toString i)))
      | some v => .leaf v

/-- two positions (of two bundles) denote the same tree -/
def MeaningEq (b1 b2 : Bundle) (hops : Nat) (p q : Pos) : Prop :=
  ∀ n, unfold b1 hops n p = unfold b2 hops n q

end Spec.Meaning
