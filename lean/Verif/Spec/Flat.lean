import Verif.Spec.Index
import Verif.Spec.Meaning
import Verif.Model.Classify

/-
  What C02, C03, C05, C06 say about a flattened document, as executable checks over the output.
  External table `canon : name → ref string`: the canonical `$ref` spelling of a definition name
  (`spec.MustCreateRef("#/definitions/" + jsonpointer.Escape(name)).String()`), supplied by the real
  libraries.
-/

namespace Spec.Flat
open J

mutual
  /-- every `$ref` of a JSON tree, wherever it is: (tokens of the holder, ref string) -/
  def refNodes (toks : List String) : J → List (List String × String)
    | .obj kvs =>
      (match lookup "$ref" kvs with
       | some (.str r) => if r ≠ "" then [(toks, r)] else []
       | _ => []) ++ refNodesKvs toks kvs
    | .arr xs => refNodesArr toks 0 xs
    | _ => []
  def refNodesKvs (toks : List String) : List (String × J) → List (List String × String)
    | [] => []
    | (k, v) :: rest => refNodes (toks ++ [k]) v ++ refNodesKvs toks rest
  def refNodesArr (toks : List String) (i : Nat) : List J → List (List String × String)
    | [] => []
    | v :: rest => refNodes (toks ++ [toString i]) v ++ refNodesArr toks (i + 1) rest
end

def allRefs (d : J) : List (List String × String) := refNodes [] d

/-- canonical spellings of the definitions present in the document -/
def canonRefs (canon : String → String) (d : J) : List String := (d.getObj "definitions").map fun kv => canon kv.1

/-- the positions where the analyzer sees schemas -/
def schemaToks (d : J) : List (List String) := (Spec.Index.allSchemas d).map (·.1)

/-- C02: every `$ref` sits on a schema and is exactly `#/definitions/<name>` of a present definition -/
def nonCanonical (canon : String → String) (d : J) : List (List String × String) :=
  let ok := canonRefs canon d
  let st := schemaToks d
  (allRefs d).filter fun tr => !(ok.contains tr.2 && st.contains tr.1)

def isCanonical (canon : String → String) (d : J) : Bool := (nonCanonical canon d).isEmpty

/-- C05 (first part): every remaining `$ref` targets an existing top-level local definition -/
def nonLocal (canon : String → String) (d : J) : List (List String × String) :=
  let ok := canonRefs canon d
  (allRefs d).filter fun tr => !ok.contains tr.2

/-- C06: shared sections empty, every definition referred to, nothing dangles -/
def sharedSectionsEmpty (d : J) : Bool := (d.getObj "parameters").isEmpty && (d.getObj "responses").isEmpty

def unreferenced (canon : String → String) (d : J) : List String :=
  let used := (allRefs d).map (·.2)
  ((d.getObj "definitions").map (·.1)).filter fun n => !used.contains (canon n)

/-- C03: schemas that are complex yet neither a `$ref` nor the body of a top-level definition -/
def inlineComplex (fc : Facts) (x : Classify.Ext) (d : J) : List (List String) :=
  ((Spec.Index.allSchemas d).filter fun p =>
    !Spec.Index.isTopLevel p.1 && Doc.refStr p.2 = "" &&
    (match Classify.classify fc x d 2000 [] p.2 with
     | .ok f => Classify.isComplex f
     | _ => true)).map (·.1)

/-- `$ref` cycle in a bundle: some `$ref` target reaches itself through `$ref`s -/
def reach (b : Spec.Meaning.Bundle) : Nat → List Spec.Meaning.Pos → List Spec.Meaning.Pos → List Spec.Meaning.Pos
  | 0, seen, _ => seen
  | _, seen, [] => seen
  | fuel + 1, seen, p :: todo =>
    if seen.any (fun q => q.1 == p.1 && q.2 == p.2) then reach b fuel seen todo
    else
      let next := match b.node p with
        | some j => (refNodes [] j).filterMap fun tr => b.target p.1 tr.2
        | none => []
      reach b fuel (p :: seen) (next ++ todo)

def targetsOf (b : Spec.Meaning.Bundle) : List Spec.Meaning.Pos :=
  b.docs.flatMap fun dj => (refNodes [] dj.2).filterMap fun tr => b.target dj.1 tr.2

/-- is one position inside (or equal to) another: a `$ref` below `t` that leads back to `t` or above -/
def within (inner outer : Spec.Meaning.Pos) : Bool := inner.1 == outer.1 && outer.2.isPrefixOf inner.2

def cyclic (b : Spec.Meaning.Bundle) : Bool :=
  (targetsOf b).any fun t =>
    let next := match b.node t with
      | some j => (refNodes [] j).filterMap fun tr => b.target t.1 tr.2
      | none => []
    (reach b 4000 [] next).any fun q => within t q

end Spec.Flat
