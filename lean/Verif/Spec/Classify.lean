import Verif.Model.Classify

/-
  What C20 says about the flags, independent of how they are computed.
-/

namespace Spec.Classify

/-- the coherence conditions of the statement -/
def coherent (f : _root_.Classify.Flags) : Bool :=
  (f.isSimpleSchema == (f.isKnownType || f.isSimpleArray || f.isSimpleMap)) &&
  (!f.isSimpleArray || f.isArray) &&
  (!f.isSimpleMap || f.isMap) &&
  !(f.isMap && f.isExtendedObject) &&
  !(f.isTuple && f.isTupleWithExtra) &&
  !(f.isArray && (f.isTuple || f.isTupleWithExtra))

def prims : List String := ["string", "integer", "number", "boolean"]

/-- the documented shapes (for schemas without `$ref`, with a single `type`) -/
inductive Shape where
  | primitive | emptyObject | objectWithProps | allOf | map | array | tuple | other
  deriving Repr, DecidableEq

/-- syntactic shape of a "plain" schema: a single type; tuples carry `type: array`; `format` only on
    primitives; no mixtures -/
def shapeOf (s : J) : Shape :=
  let t := s.getStr "type"
  let hasProps := !(s.getObj "properties").isEmpty
  let hasAllOf := !(s.getArr "allOf").isEmpty
  let ap : Bool := match s.get? "additionalProperties" with | some (.obj _) => true | some (.bool true) => true | _ => false
  let items := s.get? "items"
  let hasAI := (s.get? "additionalItems").isSome
  if Doc.refStr s ≠ "" then .other
  else if s.getStr "format" ≠ "" ∧ ¬ prims.contains t then .other
  else if prims.contains t then (if hasProps ∨ hasAllOf ∨ ap ∨ items.isSome ∨ hasAI then .other else .primitive)
  else if t = "array" then
    (if hasProps ∨ hasAllOf ∨ ap then .other
     else match items with
       | some (.arr (_ :: _)) => .tuple
       | some (.arr []) => .other
       | some (.obj _) => if hasAI then .other else .array
       | none => if hasAI then .other else .array
       | _ => .other)
  else if t = "object" ∨ (s.get? "type").isNone then
    (if items.isSome ∨ hasAI then .other
     else if hasAllOf then (if hasProps ∨ ap then .other else .allOf)
     else if hasProps then (if ap then .other else .objectWithProps)
     else if ap then .map
     else .emptyObject)
  else .other

/-- what the documented rules say about complexity, per shape -/
def expectedComplex : Shape → Option Bool
  | .primitive => some false
  | .emptyObject => some false
  | .map => some false
  | .array => some false
  | .objectWithProps => some true
  | .allOf => some true
  | .tuple => some true
  | .other => none

end Spec.Classify

namespace Spec.Classify

/-- an empty object whatever its `format`: no `$ref`, `type` absent or `"object"`, none of
    `properties`, `allOf`, `additionalProperties`, `items`, `additionalItems`.  (`shapeOf` makes no
    statement about a `format` on a non-primitive; the documented rule "empty objects are not
    complex" does not depend on it.) -/
def isEmptyObject (s : J) : Bool :=
  Doc.refStr s = "" &&
  ((s.get? "type").isNone || (match s.get? "type" with | some (.str "object") => true | _ => false)) &&
  (s.get? "properties").isNone && (s.get? "allOf").isNone && (s.get? "additionalProperties").isNone &&
  (s.get? "items").isNone && (s.get? "additionalItems").isNone

end Spec.Classify
