import Verif.Model.Doc

/-
  RFC 6901 JSON pointers over JSON trees: parsing a pointer string into tokens and resolving tokens
  against a document (objects by key, arrays by decimal index).
-/

namespace Spec.Pointer
open J

/-- tokens of a pointer string "/a/b~1c": split on '/', drop the leading empty piece, unescape -/
def parse (s : String) : List String :=
  match Str.splitSlashL s.toList with
  | [] => []
  | _ :: segs => segs.map fun seg => String.ofList (Str.unescL seg)

def natOfDigits (cs : List Char) : Option Nat :=
  if cs = [] ∨ ¬ cs.all Doc.isDigit then none
  else some (cs.foldl (fun n c => 10 * n + (c.toNat - '0'.toNat)) 0)

/-- one resolution step -/
def step (j : J) (t : String) : Option J :=
  match j with
  | .obj kvs => lookup t kvs
  | .arr xs => (natOfDigits t.toList).bind fun i => xs[i]?
  | _ => none

/-- resolve a token path against a document -/
def get (d : J) : List String → Option J
  | [] => some d
  | t :: ts => (step d t).bind fun c => get c ts

end Spec.Pointer
