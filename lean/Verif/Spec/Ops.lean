import Verif.Model.Doc
import Verif.Spec.Pointer

/-
  What C14 / C15 say, as decision tables over the document.
-/

namespace Spec.Ops
open J

/-- the JSON key of the HTTP method named (case-insensitively) by `method`, among the seven -/
def theMethod (method : String) : Option String :=
  Doc.methods.find? fun m => Str.toUpperAscii m = Str.toUpperAscii method

/-- the operation designated by (method, path) -/
def operationFor (d : J) (method path : String) : Option J :=
  (theMethod method).bind fun m => (lookup path (Doc.pathItems d)).bind (·.get? m)

/-- all operations: (METHOD, path, op) -/
def allOps (d : J) : List (String × String × J) :=
  (Doc.pathItems d).flatMap fun kv =>
    Doc.methods.filterMap fun m => (kv.2.get? m).map fun op => (Str.toUpperAscii m, kv.1, op)

def idOf (o : String × String × J) : String := o.2.2.getStr "operationId"

/-- the operation with a given (non-empty, unique) id -/
def operationForName (d : J) (id : String) : Option (String × String × J) :=
  (allOps d).find? fun o => idOf o = id

def ids (d : J) : List String :=
  (allOps d).map fun o => if idOf o ≠ "" then idOf o else o.1 ++ " " ++ o.2.1

def methodPaths (d : J) : List String := (allOps d).map fun o => o.1 ++ " " ++ o.2.1

/-- consumes / produces: the operation's own list when non-empty, the document's otherwise -/
def mediaFor (k : String) (d op : J) : List String :=
  if op.getStrs k ≠ [] then op.getStrs k else d.getStrs k

/-- the requirement list in force: the operation's when it declares any (even empty), else the document's -/
def securityInForce (d op : J) : Option (List J) :=
  match op.get? "security" with
  | some (.arr xs) => some xs
  | _ => match d.get? "security" with
    | some (.arr xs) => some xs
    | _ => none

def namesOf (reqs : List J) : List String :=
  (reqs.flatMap fun r => match r with | .obj kvs => kvs.map (·.1) | _ => []).eraseDups

/-- the security definitions named by the requirements in force -/
def securityDefinitionNames (d op : J) : List String :=
  match securityInForce d op with
  | none => []
  | some reqs => (namesOf reqs).filter fun n =>
      n ≠ "" && (match lookup n (d.getObj "securityDefinitions") with | some (.obj _) => true | _ => false)

end Spec.Ops

namespace Spec.Params
open J

/-- the key under which parameters override each other: location + (go) name -/
def keyOf (goName : String → String) (p : J) : String :=
  p.getStr "in" ++ "#" ++ goName (p.getStr "name")

/-- a `$ref`-parameter designates a shared parameter of the document -/
def target (refTokens : String → Option (List String)) (d p : J) : Option J :=
  if Doc.refStr p = "" then some p
  else match refTokens (Doc.refStr p) with
    | some ["parameters", n] => lookup n (d.getObj "parameters")
    | _ => none

/-- effective parameters when every reference resolves: path-level parameters overridden by the
    operation's own on the same key; the value under a key is the *last* parameter with that key -/
def effective (goName : String → String) (refTokens : String → Option (List String)) (d pi op : J) (k : String) : Option J :=
  (((pi.getArr "parameters" ++ op.getArr "parameters").filterMap (target refTokens d)).filter
    fun p => keyOf goName p = k).getLast?

end Spec.Params
