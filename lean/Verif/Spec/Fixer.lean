import Verif.Model.Doc

/-
  What C19 says, written as the simplest definitions: the response objects of a document, "has a
  non-empty description unless it is a $ref", and the one generic traversal `mapResponses` that
  applies a function at every response position (shared, default, status-code; all seven methods of
  every path).  The expected result of the call is `mapResponses describe`.
-/

namespace Spec.Fixer
open J

/-- a response object satisfies the post-condition -/
def described (r : J) : Bool := r.getStr "description" ≠ "" || Doc.hasRefKey r

def isResponseKey (k : String) : Bool := k = "default" || Doc.isCodeKey k

/-- what `g` becomes at each top-level key: responses of operations, shared responses -/
def atTop (g : J → J) (k : String) : J → J :=
  if k = "paths" then
    mapObj (sel Doc.isPathKey
      (mapObj (sel Doc.isMethodKey
        (mapObj (sel (· = "responses") (mapObj (sel isResponseKey g)))))))
  else if k = "responses" then mapObj (fun _ => g)
  else id

/-- apply `g` at every response position of the document -/
def mapResponses (g : J → J) (d : J) : J := mapObj (atTop g) d

/-- what the call must do to one response -/
def describe (r : J) : J := if described r then r else r.set "description" (.str "(empty)")

/-- the document the call must leave behind -/
def expected (d : J) : J := mapResponses describe d

/-- blank out exactly what the call may touch: the description of a non-$ref response when it is
    empty or "(empty)" -/
def blank (r : J) : J :=
  if Doc.hasRefKey r then r
  else if r.getStr "description" = "" ∨ r.getStr "description" = "(empty)" then r.erase "description"
  else r

/-- two documents agree on everything the call must not touch -/
def sameFrame (a b : J) : Bool := mapResponses blank a == mapResponses blank b

/-- responses of one operation -/
def opResponses (op : J) : List J :=
  ((op.getObj "responses").filter (fun kv => isResponseKey kv.1)).map (·.2)

/-- operations of a path item: all seven methods -/
def pathItemOps (pi : J) : List J := Doc.methods.filterMap pi.get?

/-- every response object of the document -/
def allResponses (d : J) : List J :=
  (d.getObj "responses").map (·.2) ++
  ((Doc.pathItems d).flatMap fun kv => (pathItemOps kv.2).flatMap opResponses)

def postcondition (d : J) : Bool := (allResponses d).all described

end Spec.Fixer
