#!/usr/bin/env python3
# Regenerates MANIFEST.json from the table below (kept in one place so that it stays valid).
import json
ALL = ["C%02d" % i for i in range(1, 21)]
OPS_NOTE = "Trusted: Lean kernel; extractor (syntactic); harness generators/comparator; go-openapi/spec JSON loading; swag.ToGoName and jsonreference decoding supplied as tables by the real libraries (external functions of the model)."
MIX_NOTE = "Trusted: Lean kernel; extractor (syntactic); harness generators/comparator; go-openapi/spec JSON loading. Documents are in the spec model's serialization normal form; the warnings theorem assumes distinct keys per object and well-typed info/contact/license; generator keeps ids unique per document (hypothesis of C18)."
FL_NOTE = "Trusted: Lean kernel and the Lean runtime executing the validators; the harness (bundle generator, child-process runner, byte comparisons); tables of external functions supplied by the real libraries ($ref resolution relative to a document, canonical $ref spelling, strfmt registry); go-openapi/spec loading/expansion is exercised, not modelled. Not proved: that the Flatten pipeline issues only meaning-preserving rewrites for every bundle of W - established per explored bundle by the validator."
def fl(cat, technique, text, ref):
    return dict(cat=cat, technique=technique, text=text, note=FL_NOTE, ref=ref)
FLAT = {
 "C01": fl("translation_validation", "translation validation: Lean-verified certificate checker (bisimulation of $ref-unfolded documents, soundness theorem cert_sound) run on every (input bundle, Flatten output) of the exploration; candidate relation computed by an untrusted Lean search",
   "Per explored bundle of W and option set: a bisimulation between the $ref-unfolded input bundle and output document (all top-level parts except the shared sections; every pre-existing definition under its own name; shared parameters/responses when kept) is computed and accepted by checkCert, whose soundness (accepted relation => equal unfoldings at every depth, i.e. same possibly infinite trees, x-go-gen-location ignored) is proved in Lean for all bundles. Partial: the universal statement over the pipeline is validated per run, not proved.", "§7 C01"),
 "C02": fl("translation_validation", "translation validation: Lean validator over the output (every $ref, found by a generic walk, is the canonical #/definitions/<name> of a present definition and sits on a schema position of the Spec traversal of C11) on every explored bundle",
   "Per explored bundle (Minimal and full, with/without RemoveUnused, KeepNames on single documents): the Lean check nonCanonical finds no $ref outside schema positions and none that is not the canonical spelling of a definition present in the document. C11's theorems make 'seen by the analyzer' and 'present in the document' coincide.", "§7 C02"),
 "C03": fl("translation_validation", "translation validation: Lean validator (no complex schema, per the proved classification model of C20, at a schema position that is neither a $ref nor a top-level definition body) + Go-side case-insensitive comparison of created vs pre-existing names; meaning of pre-existing definitions via C01's certificate",
   "Per explored bundle under full flattening: inlineComplex (Spec positions of C12 x classification model of C20) is empty, created names differ from every pre-existing name up to case, and old definitions keep their meaning (C01).", "§7 C03"),
 "C04": fl("translation_validation", "exploration of W with every Flatten call certified: error value, plus the validators of C01-C03 on the result",
   "Per explored bundle and option set: Flatten returns nil and the result passes the C01, C02 and C03 validators. Partial: totality of the pipeline on W is explored, not proved.", "§7 C04"),
 "C05": fl("translation_validation", "translation validation: Lean validators (remaining $refs canonical and local; none at all when the Lean cycle detector finds no $ref cycle in the bundle) + C01 certificate + byte comparison of repeated runs",
   "Per explored bundle under Expand: every remaining $ref is the canonical reference of a present definition, the certificate of C01 is accepted, and for bundles without $ref cycle the output has no $ref and repeated runs (also from JSON with permuted key order) are byte-identical.", "§7 C05"),
 "C06": fl("translation_validation", "translation validation: Lean validators on the output (shared sections empty, every definition referred to, no dangling $ref) + C01 certificate, on every explored bundle incl. names needing pointer/URL escaping and chains that become unused",
   "Per explored bundle with RemoveUnused: parameters/responses sections are empty, each remaining definition is the target of some $ref, no $ref dangles, and operations keep their meaning (C01).", "§7 C06"),
 "C07": fl("exploration", "exploration: each bundle flattened repeatedly in fresh processes' loads (3 repeats quick) and from JSON re-serialised with permuted key order; byte comparison",
   "Per explored bundle (Minimal/full; Expand only when the Lean cycle detector finds no cycle): all repeats and permuted-key loads give byte-identical output. Partial: Go map iteration order is sampled, not enumerated.", "§7 C07"),
 "C08": fl("exploration", "exploration: second Flatten with the same options on every successful Minimal/full output; byte comparison",
   "Per explored bundle: flattening the output again succeeds and leaves it byte-identical.", "§7 C08"),
 "C09": fl("fault_enumeration", "fault enumeration: for every bundle and every k up to the number of document loads of the fault-free run, the k-th load fails (counting PathLoader); every call in a killable child process (hang/crash/panic detection); termination theorems for the modelled loops (C20)",
   "Per explored bundle: Flatten neither panics, crashes nor exceeds the time limit, and when any single document load fails it returns an error instead of success. Partial: crashes inside libraries and wall-clock hangs are explored, not proved.", "§7 C09"),
 "C10": fl("exploration", "exploration: after every successful Flatten, the digest of every public query on the analyzer that was passed in is compared with that of a fresh analysis of the rewritten document",
   "Per explored bundle and option set: every public getter of the passed-in Spec (and its private indexes through the verif dump) answers as analysis.New on the rewritten document does.", "§7 C10"),
}
AN_NOTE = "Trusted: Lean kernel; extractor (syntactic); harness generators/comparator; go-openapi/spec JSON loading; $ref strings pre-normalised by jsonreference (opaque to the model). WF: tokens on the way to indexed positions are not \"\", \".\", \"..\"; header names need no pointer escaping; non-body parameters carry no schema."
checks = {
 "C11": dict(cat="proof", technique="Lean 4 theorems: the model of analyzer.go's walk (string keys built with path.Join / jsonpointer.Escape) yields, per kind and for the all-view, a permutation of the (pointer, $ref) pairs of a generic token-space traversal of the document; string lemmas about path.Clean/Join and escaping proved for all strings; differential correspondence on every index incl. private maps",
   text="Proved in Lean for every well-formed document (unbounded nesting, any names over the alphabet): for each reference kind and for the all view, the analyzer model's (key, $ref) entries are a permutation (multiset equality: none missing, none invented, each with multiplicity) of those read off the document by the Spec traversal over every schema-bearing keyword, parameters, responses, headers, items and path items. The method table and the default-response facts are re-extracted on every run; model, Spec oracle and implementation (all private indexes through a verif-tagged dump, and all public getters) are compared on generated documents.",
   note=AN_NOTE, ref="§7 C11"),
 "C12": dict(cat="proof", technique="Lean 4 theorems: schema index = permutation of the document's schemas with name/top-level/allOf flags; pointer keys parse back to their token paths and resolve to that very schema; keys pairwise distinct; differential correspondence + Go-side resolution of every SchemaRef.Ref",
   text="Proved in Lean: the schema index of the analyzer model is a permutation of all schemas of the document (each once), flagged top-level exactly for definitions entries; for documents whose objects have distinct keys, every key is a JSON pointer that parses back to its token path (escape/unescape/join commute for all strings) and resolves against the document to that very schema, and all keys are pairwise distinct. Each run also resolves every SchemaRef.Ref of the real analyzer against the real document.",
   note=AN_NOTE, ref="§7 C12"),
 "C13": dict(cat="proof", technique="Lean 4 theorems: pattern and enum indexes per category and all-views are permutations of the owners found by the Spec traversal; kernel-checked witness that the default-response registration is needed (defect D1, repaired); differential correspondence",
   text="Proved in Lean for every well-formed document: per category (parameter, header, items, schema) and for the all views, the pattern and enum entries of the analyzer model are a permutation of those declared in the document at parameters (shared, path-level, operation), headers (default, status-code and shared responses), nested items and schemas at any depth. The fact that analyzeDefaultResponse registers header enums is re-extracted on every run; its necessity is a kernel-checked example.",
   note=AN_NOTE, ref="§7 C13"),
 "C20": dict(cat="proof", technique="Lean 4 theorems about a fuel-indexed model of schema.go (coherence by induction on fuel, $ref transparency, documented rules by case analysis on the schema shape, termination with an explicit fuel bound, divergence without the guard) + regenerated fact (visited guard) + differential correspondence in killable child processes",
   text="Proved in Lean for every root document, schema, external format registry and $ref decoder: every successful classification is coherent; a schema carrying a $ref classifies exactly like its target; objects with properties, allOf and tuples are complex while primitives, arrays, maps and empty objects are not; with the visited-$ref guard (fact re-extracted from schema.go on every run) classification terminates within an explicit fuel bound, and without it an array of itself diverges for every fuel (defect D9, repaired). spec.ExpandSchema is modelled lazily; that equivalence is validated, not proved, by the classify stream (each call in a child process with a 10 s timeout).",
   note="Trusted: Lean kernel; extractor (syntactic); harness generators/comparator; the lazy model of spec.ExpandSchema (validated by differential execution only); strfmt registry and jsonreference decoding supplied as tables by the real libraries.",
   ref="§7 C20"),
 "C17": dict(cat="proof", technique="Lean 4 theorems about a hand-written model of mixin.go (never panics, first-wins keyed sections, de-duplicated ordered unions, first-non-empty scalars, warnings = collisions), facts regenerated from mixin.go, differential correspondence incl. collision reports",
   text="Proved in Lean for every primary and every list of mixins (any length, any entry order): Mixin never panics given the extracted guard fact; each keyed section is the first-wins union (paths up to operation ids); list fields are the order-preserving de-duplicated union starting from the primary's list; scalars come from the first document that has them; the number of reports equals the number of key collisions (for documents with distinct keys and well-typed info parts; counterexamples to the unguarded statements are kernel-checked in C17Counterexamples). The model is tied to the code by the regenerated facts and by differential execution on generated primaries with 0..3 mixins.",
   note=MIX_NOTE, ref="§7 C17"),
 "C18": dict(cat="proof", technique="Lean 4 theorem (invariant over the renaming loop + injectivity of x++\"Mixin\"++decimal) about the model of mergePaths/getOpIDs, facts regenerated from mixin.go (seven methods, empty ids skipped), differential correspondence",
   text="Proved in Lean: if operation ids are unique within each input and no id has the form <id>Mixin<N> of another, all non-empty ids of the merged document are pairwise distinct, for operations under all seven methods and for every order of the entries of every object (iteration order). The facts 'pathItemOps covers the seven methods' and 'empty ids are skipped' are re-extracted and re-proved on every run; renamed-only-if-collides and empty-ids-stay-empty are decided per run by the Lean Spec oracle on the implementation's output.",
   note=MIX_NOTE, ref="§7 C18"),
 "C14": dict(cat="proof", technique="Lean 4 theorems: model of the operation index and queries (parameterised by the method table extracted from analyzer.go) equals decision-table Spec; differential correspondence on generated documents x all (method, path, id) queries",
   text="Proved in Lean for every document: lookup by (method, path) is exactly the document's operation for the seven methods (case-insensitive ASCII), the index/id/'METHOD path' listings are permutations of the document's operations, lookup by a unique id finds that operation whatever the iteration order, consumes/produces and security rules (explicitly empty security disables). Method table and nil-safety facts are re-extracted and re-proved on every run; the model is tied to the code by differential execution of every query kind.",
   note=OPS_NOTE, ref="§7 C14"),
 "C15": dict(cat="proof", technique="Lean 4 theorems about a model of paramsAsMap/SafeParamsFor/SafeParametersFor (override rule, no placeholder, callback exactly on bad refs, plain variants panic iff bad ref, missing designation is empty, Safe variants never panic) + regenerated nil-safety facts + differential correspondence with scripted callbacks",
   text="Proved in Lean for every document, every parameter list, every callback script and every external name-mangling function: last-wins override on the (in, GoName) key with $refs replaced by their targets, no unresolved placeholder is returned, the callback is invoked exactly once per bad reference, nil callback panics iff a bad reference exists, and lookups that designate no operation (also without paths) are empty and never crash. Tied to the code by the regenerated facts (method lists, nil-safe accessors) and by differential execution over all (method spelling, path, id) combinations.",
   note=OPS_NOTE, ref="§7 C15"),
 "C16": dict(cat="proof", technique="Lean 4 theorems over a heap/trace model of the analyzed Spec (read-only queries, interleaving irrelevance, copy safety) whose hypotheses are facts regenerated by a syntactic effect analysis of analyzer.go + in-process and race-detector exploration",
   text="Partial, named: proved in Lean that, given no exported *Spec method writes to receiver- or argument-reachable state (effect table regenerated from the source on every run), every interleaving of atomic queries gives each thread the sequential answers and mutating a map returned by a pattern/enum getter changes nothing. The real code is explored: document serialization before/after New and after query/mutation rounds, 8 goroutines in-process, and a -race build with 8..32 goroutines over several seeds. Data races below query granularity cannot be exhibited by the model; they are only sampled by the race detector.",
   note="Trusted: Lean kernel; the syntactic effect analysis (conservative, go/ast, no type information); Go race detector; swag/jsonpointer library internals.",
   ref="§7 C16"),
 "C19": dict(cat="proof", technique="Lean 4 theorems about a hand-written model of fixer.go (exact functional spec, post-condition, frame, idempotence, no panic) + regenerated source facts + differential correspondence (model vs implementation vs Lean Spec oracle)",
   text="Proved in Lean for every JSON document: the model of FixEmptyResponseDescriptions returns exactly the document in which every response position (shared, default, status-code, all seven methods of every path) is `describe`d; post-condition, frame, idempotence and absence of panic follow. The model is parameterised by facts regenerated from fixer.go (methods visited, nil guard) whose hypotheses are re-proved on every run, and is tied to the code by differential execution on generated documents.",
   note="Trusted: Lean kernel; extractor (syntactic); harness generators/comparator; go-openapi/spec JSON loading. The model works on documents in the spec model's serialization normal form.",
   ref="§7 C19"),
}
checks.update(FLAT)
m = {
 "version": 1,
 "setup_cmd": "cd /verif && ./setup.sh",
 "hooks": {
   "guard": "verif",
   "enable": "go build -tags verif (the harness module /verif/harness replaces github.com/go-openapi/analysis by /repo)",
   "baseline_off_cmd": "cd /repo && GOFLAGS=-mod=mod GOPROXY=off GOSUMDB=off go test -vet=off -count=1 ./... ; cd /repo/analysis_test && GOFLAGS=-mod=mod GOPROXY=off GOSUMDB=off go test -vet=off -count=1 ./...",
   "source_commits": [],
   "add_only": True,
 },
 "engines": [
   {"name": "lean-model", "path": "/verif/lean", "serves_properties": sorted(checks), "kind_free_text": "Lean 4 model, Spec, theorems (lake project Verif) + core-only driver executable"},
   {"name": "vh", "path": "/verif/harness", "serves_properties": sorted(checks), "kind_free_text": "Go correspondence harness (generators, implementation runner, comparator, evidence) and go/ast fact extractor"},
 ],
 "checks": [],
 "not_applicable": [],
 "notes": "Every check: ./check <id> <tier>. Replays: ./check --replay <file>. Known findings: /verif/known_findings.jsonl.",
}
for pid in ALL:
    if pid in checks:
        c = checks[pid]
        m["checks"].append({
          "property_id": pid,
          "quick_cmd": "./check %s quick" % pid,
          "thorough_cmd": "./check %s thorough" % pid,
          "evidence_file": "/verif/evidence/%s.json" % pid,
          "replay_cmd_template": "./check --replay {path}",
          "engine": "lean-model+vh",
          "level_claimed": {"category": c["cat"], "text": c["text"], "design_ref": c["ref"]},
          "level_note": c["note"],
          "technique": c["technique"],
        })
    else:
        m["not_applicable"].append({"property_id": pid, "reason": "check not built yet in this round (planned: DESIGN.md §7); not claimed"})
json.dump(m, open("/verif/MANIFEST.json", "w"), indent=1)
print("checks:", len(m["checks"]), "not_applicable:", len(m["not_applicable"]))
