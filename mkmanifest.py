#!/usr/bin/env python3
# Regenerates MANIFEST.json from the table below (kept in one place so that it stays valid).
import json
ALL = ["C%02d" % i for i in range(1, 21)]
checks = {
 "C19": dict(cat="proof", technique="Lean 4 theorems about a hand-written model of fixer.go (exact functional spec, post-condition, frame, idempotence, no panic) + regenerated source facts + differential correspondence (model vs implementation vs Lean Spec oracle)",
   text="Proved in Lean for every JSON document: the model of FixEmptyResponseDescriptions returns exactly the document in which every response position (shared, default, status-code, all seven methods of every path) is `describe`d; post-condition, frame, idempotence and absence of panic follow. The model is parameterised by facts regenerated from fixer.go (methods visited, nil guard) whose hypotheses are re-proved on every run, and is tied to the code by differential execution on generated documents.",
   note="Trusted: Lean kernel; extractor (syntactic); harness generators/comparator; go-openapi/spec JSON loading. The model works on documents in the spec model's serialization normal form.",
   ref="§7 C19"),
}
m = {
 "version": 1,
 "setup_cmd": "cd /verif && ./setup.sh",
 "hooks": {
   "guard": "verif",
   "enable": "go build -tags verif (the harness module /verif/harness replaces github.com/go-openapi/analysis by /repo)",
   "baseline_off_cmd": "cd /repo && GOFLAGS=-mod=mod GOPROXY=off GOSUMDB=off go test -vet=off -count=1 ./... ; cd /repo/analysis_test && GOFLAGS=-mod=mod GOPROXY=off GOSUMDB=off go test -vet=off -count=1 ./...",
   "source_commits": [],
   "add_only": True,
 },
 "engines": [
   {"name": "lean-model", "path": "/verif/lean", "serves_properties": sorted(checks), "kind_free_text": "Lean 4 model, Spec, theorems (lake project Verif) + core-only driver executable"},
   {"name": "vh", "path": "/verif/harness", "serves_properties": sorted(checks), "kind_free_text": "Go correspondence harness (generators, implementation runner, comparator, evidence) and go/ast fact extractor"},
 ],
 "checks": [],
 "not_applicable": [],
 "notes": "Every check: ./check <id> <tier>. Replays: ./check --replay <file>. Known findings: /verif/known_findings.jsonl.",
}
for pid in ALL:
    if pid in checks:
        c = checks[pid]
        m["checks"].append({
          "property_id": pid,
          "quick_cmd": "./check %s quick" % pid,
          "thorough_cmd": "./check %s thorough" % pid,
          "evidence_file": "/verif/evidence/%s.json" % pid,
          "replay_cmd_template": "./check --replay {path}",
          "engine": "lean-model+vh",
          "level_claimed": {"category": c["cat"], "text": c["text"], "design_ref": c["ref"]},
          "level_note": c["note"],
          "technique": c["technique"],
        })
    else:
        m["not_applicable"].append({"property_id": pid, "reason": "check not built yet in this round (planned: DESIGN.md §7); not claimed"})
json.dump(m, open("/verif/MANIFEST.json", "w"), indent=1)
print("checks:", len(m["checks"]), "not_applicable:", len(m["not_applicable"]))
